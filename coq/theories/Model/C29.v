(* C29 - the CAS-backed filesystem view.  Executable model of src/remote/fs/fs.go and info.go:
   New/ChangeDir, Open/open (symlink following with the follow counter), FindNode/findNode, Stat,
   dir.ReadDir with its offset, and of the three path/filepath functions the code calls
   (Clean, Join, Dir - Unix); and the views as objects: a store of views with ChangeDir (as
   translated by gotrans from its body) / Open / Stat / ReadDir histories.  No proofs here.

   Digests.  New() stores every directory under digest.NewFromMessage(child), so the key under
   which a directory is found IS its digest; the model therefore uses opaque ids for digests (the
   harness numbers the distinct digests of a tree) and carries the key along with the directory,
   which is what `digest.NewFromMessage(wd)` recomputes in the "." case of findNode.  A directory
   node whose digest is not in the map is Go's nil *pb.Directory: reading a field of it panics. *)
From PlzV Require Import Base.Harness.
From PlzV Require Gen.CasFs.

Definition slash : N := 47%N.
Definition dot : str := [46%N].
Definition dotdot : str := [46%N; 46%N].

(* ---------------------------------------------------------------------------------------------
   path/filepath (Unix) *)

(* strings.Split(p, "/") *)
Fixpoint split (p : str) : list str :=
  match p with
  | [] => [[]]
  | c :: r => if N.eqb c slash then [] :: split r
              else match split r with
                   | [] => [[c]]
                   | h :: t => (c :: h) :: t
                   end
  end.

(* strings.Join(l, "/") *)
Fixpoint joinp (l : list str) : str :=
  match l with
  | [] => []
  | [x] => x
  | x :: r => x ++ slash :: joinp r
  end.

(* The element loop of Clean: empty and "." elements are skipped; ".." removes the last kept
   element if there is one, otherwise it is kept (not rooted) or dropped (rooted); kept ".."s can
   only be leading (dd counts them); stack holds the other kept elements, last first. *)
Fixpoint norm (rooted : bool) (dd : nat) (stack : list str) (segs : list str) : nat * list str :=
  match segs with
  | [] => (dd, stack)
  | x :: r =>
      if str_eqb x [] || str_eqb x dot then norm rooted dd stack r
      else if str_eqb x dotdot then
        match stack with
        | _ :: st => norm rooted dd st r
        | [] => norm rooted (if rooted then dd else S dd) [] r
        end
      else norm rooted dd (x :: stack) r
  end.

Definition norm_segs (rooted : bool) (segs : list str) : list str :=
  let '(dd, st) := norm rooted 0 [] segs in repeat dotdot dd ++ rev st.

Definition clean (p : str) : str :=
  match p with
  | [] => dot
  | c :: _ =>
      let rooted := N.eqb c slash in
      let segs := norm_segs rooted (split p) in
      if rooted then slash :: joinp segs
      else match segs with [] => dot | _ => joinp segs end
  end.

(* filepath.Join(a, b): the elements from the first non-empty one on, joined by "/", cleaned *)
Definition go_join (a b : str) : str :=
  match a with
  | [] => match b with [] => [] | _ => clean b end
  | _ => clean (a ++ slash :: b)
  end.

(* path[:i+1] for the last '/' at i; "" if there is none *)
Fixpoint upto_last_slash (p : str) : str :=
  match p with
  | [] => []
  | c :: r => let u := upto_last_slash r in
              if N.eqb c slash then c :: u else match u with [] => [] | _ => c :: u end
  end.

Definition go_dir (p : str) : str := clean (upto_last_slash p).

(* filepath.IsAbs *)
Definition is_abs (p : str) : bool := match p with c :: _ => N.eqb c slash | [] => false end.

(* ---------------------------------------------------------------------------------------------
   the Tree *)

Definition props := (option N * option Z)%type.     (* NodeProperties: UnixMode, Mtime (seconds) *)

Record info := mk_info { i_name : str; i_size : Z; i_mode : N; i_mtime : option Z }.
Record dnode := mk_dnode { d_name : str; d_dg : N }.
Record fnode := mk_fnode { f_name : str; f_blob : N; f_size : Z; f_props : props }.
Record lnode := mk_lnode { l_name : str; l_target : str; l_props : props }.
Record mdir := mk_mdir { m_dirs : list dnode; m_files : list fnode; m_links : list lnode; m_props : props }.

(* fs.root, its digest, fs.directories, and the CAS (blob id -> content) *)
Record tree := mk_tree { t_root : mdir; t_rootdg : N; t_dirs : list (N * mdir); t_blobs : list (N * str) }.

Fixpoint lookup {A} (k : N) (m : list (N * A)) : option A :=
  match m with
  | [] => None
  | (k', v) :: r => if N.eqb k k' then Some v else lookup k r
  end.

Inductive err := ENotExist | EAbs | ELoop | EBlob | EOther.
Inductive res (A : Type) := Ok (a : A) | Err (e : err) | Panic.
Arguments Ok {A} a.
Arguments Err {A} e.
Arguments Panic {A}.

(* ---- info.go *)
Definition mode_dir : N := 2147483648%N.      (* os.ModeDir = 1<<31 *)
Definition mode_symlink : N := 134217728%N.   (* os.ModeSymlink = 1<<27 *)

Definition with_props (i : info) (p : props) : info :=
  mk_info (i_name i) (i_size i)
          (match fst p with Some m => N.lor (i_mode i) m | None => i_mode i end)
          (match snd p with Some t => Some t | None => i_mtime i end).

Definition file_info (f : fnode) : info := with_props (mk_info (f_name f) (f_size f) 0%N None) (f_props f).
Definition dir_info (name : str) (m : mdir) : info := with_props (mk_info name 0%Z mode_dir None) (m_props m).
Definition link_info (l : lnode) : info := with_props (mk_info (l_name l) 0%Z mode_symlink None) (l_props l).

(* ---- findNode *)
Inductive found := FFile (f : fnode) | FDir (d : dnode) | FLink (l : lnode).

Definition find_dir (name : str) (l : list dnode) := find (fun d => str_eqb (d_name d) name) l.
Definition find_file (name : str) (l : list fnode) := find (fun f => str_eqb (f_name f) name) l.
Definition find_link (name : str) (l : list lnode) := find (fun x => str_eqb (l_name x) name) l.

(* One activation of findNode after `name, rest, hasToBeDir := strings.Cut(name, "/")`:
   return, recurse into a child directory, or (name == "." && rest != "") recurse in place. *)
Inductive act := ARet (r : res found) | ADescend (dg : N) (m : option mdir) | AStay.

Definition decide (t : tree) (wdg : N) (wd : option mdir) (name : str) (rest_empty has_to_be_dir : bool) : act :=
  if str_eqb name dot then
    if rest_empty then
      match wd with
      | Some _ => ARet (Ok (FDir (mk_dnode dot wdg)))
      | None => ARet Panic   (* digest of a nil message: not reachable, cleaned paths hold "." only as the whole path *)
      end
    else AStay
  else if str_eqb name dotdot then ARet (Err ENotExist)
  else match wd with
       | None => ARet Panic                           (* wd.Directories with wd == nil *)
       | Some m =>
           match find_dir name (m_dirs m) with
           | Some d => if rest_empty then ARet (Ok (FDir d))
                       else ADescend (d_dg d) (lookup (d_dg d) (t_dirs t))
           | None =>
               if has_to_be_dir then ARet (Err ENotExist)
               else match find_file name (m_files m) with
                    | Some f => ARet (Ok (FFile f))
                    | None => match find_link name (m_links m) with
                              | Some l => ARet (Ok (FLink l))
                              | None => ARet (Err ENotExist)
                              end
                    end
           end
       end.

(* findNode(wd, p): acc collects (reversed) the bytes of the current element up to the next '/' *)
Fixpoint walk (t : tree) (wdg : N) (wd : option mdir) (acc : str) (p : str) : res found :=
  match p with
  | [] => match decide t wdg wd (rev acc) true false with
          | ARet r => r
          | _ => Err EOther
          end
  | c :: p' =>
      if N.eqb c slash then
        match decide t wdg wd (rev acc) (match p' with [] => true | _ => false end) true with
        | ARet r => r
        | ADescend dg m => walk t dg m [] p'
        | AStay => walk t wdg wd [] p'
        end
      else walk t wdg wd (c :: acc) p'
  end.

Definition find_node (t : tree) (name : str) : res found :=
  walk t (t_rootdg t) (Some (t_root t)) [] name.

(* ---- Stat (on the joined name) *)
Definition stat_at (t : tree) (name : str) : res info :=
  match find_node t name with
  | Ok (FFile f) => Ok (file_info f)
  | Ok (FDir d) => match lookup (d_dg d) (t_dirs t) with
                   | Some m => Ok (dir_info (d_name d) m)
                   | None => Panic                    (* newDirInfo(name, nil) *)
                   end
  | Ok (FLink l) => Ok (link_info l)
  | Err e => Err e
  | Panic => Panic
  end.

(* ---- open: fuel = maxSymlinks - followed *)
Inductive opened := OpFile (i : info) (content : str) | OpDir (i : info) (m : mdir).

Fixpoint open_at (t : tree) (fuel : nat) (name : str) : res opened :=
  match find_node t name with
  | Err e => Err e
  | Panic => Panic
  | Ok (FLink l) =>
      if is_abs (l_target l) then Err EAbs
      else match fuel with
           | O => Err ELoop
           | S fuel' => open_at t fuel' (go_join (go_dir name) (l_target l))
           end
  | Ok (FFile f) => match lookup (f_blob f) (t_blobs t) with
                    | Some c => Ok (OpFile (file_info f) c)
                    | None => Err EBlob
                    end
  | Ok (FDir d) => match lookup (d_dg d) (t_dirs t) with
                   | Some m => Ok (OpDir (dir_info (d_name d) m) m)
                   | None => Panic
                   end
  end.

Definition max_symlinks : nat := Gen.CasFs.max_symlinks.

(* ---- the working directory: New cleans it; ChangeDir sets it as translated from the source
   (Gen.CasFs.chdir_wd: 0 = the parameter as given, 1 = Clean of it, 2 = Join(receiver's, it)).
   WChdir d is New(c, tree, ".").ChangeDir(d). *)
Definition chdir_wd (old d : str) : str :=
  match Gen.CasFs.chdir_wd with
  | 0 => d
  | 1 => clean d
  | _ => go_join old d
  end.

Inductive wdspec := WNew (d : str) | WChdir (d : str).
Definition fs_wd (w : wdspec) : str := match w with WNew d => clean d | WChdir d => chdir_wd (clean dot) d end.

Definition fs_open (t : tree) (w : wdspec) (name : str) : res opened :=
  open_at t max_symlinks (go_join (fs_wd w) name).
Definition fs_stat (t : tree) (w : wdspec) (name : str) : res info :=
  stat_at t (go_join (fs_wd w) name).

(* ---- dir.ReadDir *)
Fixpoint dir_entries (t : tree) (ds : list dnode) : res (list info) :=
  match ds with
  | [] => Ok []
  | d :: r => match lookup (d_dg d) (t_dirs t) with
              | None => Panic
              | Some m => match dir_entries t r with
                          | Ok l => Ok (dir_info (d_name d) m :: l)
                          | x => x
                          end
              end
  end.

Definition listing (t : tree) (m : mdir) : res (list info) :=
  match dir_entries t (m_dirs m) with
  | Ok l => Ok (l ++ map file_info (m_files m) ++ map link_info (m_links m))
  | x => x
  end.

(* one call ReadDir(n) at offset off: ((entries, err == io.EOF), new offset) *)
Definition readdir (all : list info) (off : nat) (n : Z) : (list info * bool) * nat :=
  let rest := skipn off all in
  if (n <=? 0)%Z then ((rest, false), length all)
  else match rest with
       | [] => (([], true), off)
       | _ => let pg := firstn (Z.to_nat n) rest in ((pg, false), off + length pg)%nat
       end.

Fixpoint readdir_seq (all : list info) (off : nat) (ns : list Z) : list (list info * bool) :=
  match ns with
  | [] => []
  | n :: r => let '(pg, off') := readdir all off n in pg :: readdir_seq all off' r
  end.

(* ---------------------------------------------------------------------------------------------
   correspondence cases *)

Inductive open_obs := OFile (i : info) (c : str) | ODir (i : info) (l : res (list info)).

Definition observe (t : tree) (o : res opened) : res open_obs :=
  match o with
  | Ok (OpFile i c) => Ok (OFile i c)
  | Ok (OpDir i m) => Ok (ODir i (listing t m))
  | Err e => Err e
  | Panic => Panic
  end.

(* ---------------------------------------------------------------------------------------------
   views are values: New / ChangeDir / Open / Stat / ReadDir as a state machine over a store of
   views.  A *CASFileSystem is a handle (the index of the object in the store, in creation order);
   a view holds the Tree it was made from (c, root, directories) and its workingDir.  ChangeDir is
   the translation of the source (Gen.CasFs.chdir_fresh / chdir_wd): it either allocates a new
   object and returns its handle, or re-roots the receiver in place and returns the receiver. *)
Definition view := (tree * str)%type.
Definition store := list view.

Definition new_view (t : tree) (w : wdspec) : view := (t, fs_wd w).

Fixpoint set_nth {A} (l : list A) (n : nat) (x : A) : list A :=
  match l, n with
  | [], _ => []
  | _ :: r, O => x :: r
  | y :: r, S k => y :: set_nth r k x
  end.

Inductive query := QOpen (name : str) | QStat (name : str) | QReadDir (name : str) (ns : list Z).
Inductive vop := VChdir (h : nat) (d : str) | VAsk (h : nat) (q : query).

(* None: the name does not open as a directory *)
Definition readdir_obs (t : tree) (wd name : str) (ns : list Z) : option (res (list (list info * bool))) :=
  match open_at t max_symlinks (go_join wd name) with
  | Ok (OpDir _ m) =>
      match ns with
      | [] => Some (Ok [])
      | _ => match listing t m with
             | Ok all => Some (Ok (readdir_seq all 0 ns))
             | Err e => None
             | Panic => Some Panic
             end
      end
  | Panic => Some Panic
  | _ => None
  end.

Inductive vobs :=
| BNoView                                  (* no object with that handle *)
| BView (h : nat)                          (* ChangeDir: the handle of the object it returned *)
| BOpen (r : res open_obs)
| BStat (r : res info)
| BReadDir (r : option (res (list (list info * bool)))).

(* what a view answers: a function of the view's value alone *)
Definition answer (v : view) (q : query) : vobs :=
  let '(t, wd) := v in
  match q with
  | QOpen name => BOpen (observe t (open_at t max_symlinks (go_join wd name)))
  | QStat name => BStat (stat_at t (go_join wd name))
  | QReadDir name ns => BReadDir (readdir_obs t wd name ns)
  end.

Definition ask (st : store) (h : nat) (q : query) : vobs :=
  match nth_error st h with Some v => answer v q | None => BNoView end.

Definition step (st : store) (op : vop) : store * vobs :=
  match op with
  | VAsk h q => (st, ask st h q)
  | VChdir h d =>
      match nth_error st h with
      | None => (st, BNoView)
      | Some v => let v' := (fst v, chdir_wd (snd v) d) in
                  if Gen.CasFs.chdir_fresh then (st ++ [v'], BView (length st))
                  else (set_nth st h v', BView h)
      end
  end.

Fixpoint run (st : store) (ops : list vop) : store * list vobs :=
  match ops with
  | [] => (st, [])
  | op :: r => let '(st1, ob) := step st op in
               let '(st2, obs) := run st1 r in (st2, ob :: obs)
  end.

Inductive case :=
| CSeq (t : tree) (w : wdspec) (ops : list vop) (obs : list vobs)
| COpen (t : tree) (w : wdspec) (name : str) (r : res open_obs)
| CStat (t : tree) (w : wdspec) (name : str) (r : res info)
| CReadDir (t : tree) (w : wdspec) (name : str) (ns : list Z) (r : res (list (list info * bool)))
| CPath (p cleaned dir join_xy_p join_empty_p join_p_empty : str).

Definition info_eqb (a b : info) : bool :=
  str_eqb (i_name a) (i_name b) && Z.eqb (i_size a) (i_size b) && N.eqb (i_mode a) (i_mode b)
  && option_eqb Z.eqb (i_mtime a) (i_mtime b).

Definition err_eqb (a b : err) : bool :=
  match a, b with
  | ENotExist, ENotExist | EAbs, EAbs | ELoop, ELoop | EBlob, EBlob | EOther, EOther => true
  | _, _ => false
  end.

Definition res_eqb {A} (eqb : A -> A -> bool) (a b : res A) : bool :=
  match a, b with
  | Ok x, Ok y => eqb x y
  | Err x, Err y => err_eqb x y
  | Panic, Panic => true
  | _, _ => false
  end.

Definition infos_eqb := list_eqb info_eqb.

Definition obs_eqb (a b : open_obs) : bool :=
  match a, b with
  | OFile i c, OFile j d => info_eqb i j && str_eqb c d
  | ODir i l, ODir j k => info_eqb i j && res_eqb infos_eqb l k
  | _, _ => false
  end.

Definition page_eqb (a b : list info * bool) : bool := infos_eqb (fst a) (fst b) && Bool.eqb (snd a) (snd b).

Definition vobs_eqb (a b : vobs) : bool :=
  match a, b with
  | BNoView, BNoView => true
  | BView h, BView k => Nat.eqb h k
  | BOpen r, BOpen r' => res_eqb obs_eqb r r'
  | BStat r, BStat r' => res_eqb info_eqb r r'
  | BReadDir r, BReadDir r' => option_eqb (res_eqb (list_eqb page_eqb)) r r'
  | _, _ => false
  end.

Definition check (c : case) : bool :=
  match c with
  | CSeq t w ops obs => list_eqb vobs_eqb (snd (run [new_view t w] ops)) obs
  | COpen t w name r => res_eqb obs_eqb (observe t (fs_open t w name)) r
  | CStat t w name r => res_eqb info_eqb (fs_stat t w name) r
  | CReadDir t w name ns r =>
      match fs_open t w name with
      | Ok (OpDir _ m) =>
          match ns with
          | [] => res_eqb (list_eqb page_eqb) (Ok []) r
          | _ => match listing t m with
                 | Ok all => res_eqb (list_eqb page_eqb) (Ok (readdir_seq all 0 ns)) r
                 | Err e => false
                 | Panic => res_eqb (list_eqb page_eqb) Panic r
                 end
          end
      | Panic => res_eqb (list_eqb page_eqb) Panic r
      | _ => false
      end
  | CPath p c d j1 j2 j3 =>
      str_eqb (clean p) c && str_eqb (go_dir p) d
      && str_eqb (go_join (s "x/y") p) j1 && str_eqb (go_join [] p) j2 && str_eqb (go_join p []) j3
  end.
