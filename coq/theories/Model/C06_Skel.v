(* C06 - interpreter for the control skeleton of cycleDetector.Check that gotrans regenerates from
   src/core/cycle_detector.go (Gen/CycleVisit.v).  Executable, no proofs.  Proof/C06_Skel.v proves
   that interpreting the regenerated skeleton IS the hand model of Model/C06.v.

   A skeleton the interpreter cannot give a meaning to (a name used where Go has not bound it, a
   block that falls off its end, a nil cycle returned where the maps are no longer known) evaluates
   to OutOfFuel / Fuel, the values the theorems exclude. *)
From PlzV Require Import Base.Harness Model.C06 Gen.CycleVisit.

Definition in_set (s : setname) (st : state) (t : nat) : bool :=
  match s with SPartial => mem t (partial st) | SComplete => mem t (complete st) end.
Definition add_set (s : setname) (st : state) (t : nat) : state :=
  match s with
  | SPartial => St (t :: partial st) (complete st)
  | SComplete => St (partial st) (t :: complete st)
  end.
Definition del_set (s : setname) (st : state) (t : nat) : state :=
  match s with
  | SPartial => St (del t (partial st)) (complete st)
  | SComplete => St (partial st) (del t (complete st))
  end.

(* st: the maps, None where they are not tracked (after a visit that returned a cycle);
   cx: (cycle, done) where Go has bound them.  c.stopped is false throughout. *)
Fixpoint eval_cond (st : option state) (t : nat) (cx : option (list nat * bool)) (c : cond) : option bool :=
  match c with
  | CStopped => Some false
  | CIn s => option_map (fun st => in_set s st t) st
  | CDone => option_map snd cx
  | CTargetIsLast => option_map (fun p => Nat.eqb t (last (fst p) 0)) cx
  | CTargetIsFirst => option_map (fun p => Nat.eqb t (hd 0 (fst p))) cx
  | CNot a => option_map negb (eval_cond st t cx a)
  | COr a b => match eval_cond st t cx a, eval_cond st t cx b with
               | Some x, Some y => Some (x || y) | _, _ => None end
  | CAnd a b => match eval_cond st t cx a, eval_cond st t cx b with
                | Some x, Some y => Some (x && y) | _, _ => None end
  end.

Inductive flow := FNext (st : state) | FRet (r : res) | FBad.

(* return k, done *)
Definition do_ret (st : option state) (t : nat) (cx : option (list nat * bool)) (k : cyc) (done : bool) : flow :=
  match k, cx, st with
  | KNil, _, Some st => FRet (NoCyc st)
  | KSelf, _, _ => FRet (Cyc [t] done)
  | KCycle, Some (c, _), _ => FRet (Cyc c done)
  | KPrepend, Some (c, _), _ => FRet (Cyc (t :: c) done)
  | KAppend, Some (c, _), _ => FRet (Cyc (c ++ [t]) done)
  | _, _, _ => FBad
  end.

Fixpoint exec_inner (t : nat) (cx : option (list nat * bool)) (body : list istmt) : flow :=
  match body with
  | [] => FBad
  | IIf c k d :: r =>
      match eval_cond None t cx c with
      | None => FBad
      | Some true => do_ret None t cx k d
      | Some false => exec_inner t cx r
      end
  | IRet k d :: _ => do_ret None t cx k d
  end.

Fixpoint exec_range (vis : state -> nat -> res) (t : nat) (inner : list istmt) (ds : list nat) (st : state) : flow :=
  match ds with
  | [] => FNext st
  | dep :: ds' =>
      match vis st dep with
      | OutOfFuel => FRet OutOfFuel
      | NoCyc st' => exec_range vis t inner ds' st'
      | Cyc c done => exec_inner t (Some (c, done)) inner
      end
  end.

Fixpoint exec_body (vis : state -> nat -> res) (dps : list nat) (t : nat) (body : list stmt) (st : state) : flow :=
  match body with
  | [] => FBad
  | SIf c k d :: r =>
      match eval_cond (Some st) t None c with
      | None => FBad
      | Some true => do_ret (Some st) t None k d
      | Some false => exec_body vis dps t r st
      end
  | SAdd s :: r => exec_body vis dps t r (add_set s st t)
  | SDel s :: r => exec_body vis dps t r (del_set s st t)
  | SRange inner :: r =>
      match exec_range vis t inner dps st with
      | FNext st' => exec_body vis dps t r st'
      | other => other
      end
  | SRet k d :: _ => do_ret (Some st) t None k d
  end.

Fixpoint run_visit (body : list stmt) (fuel : nat) (g : graph) (st : state) (t : nat) : res :=
  match fuel with
  | O => OutOfFuel
  | S f => match exec_body (run_visit body f g) (deps g t) t body st with
           | FRet r => r
           | _ => OutOfFuel
           end
  end.

Inductive lflow := LNext (st : state) | LRet (o : outcome).

Fixpoint exec_loop_body (vbody : list stmt) (fuel : nat) (g : graph) (t : nat) (body : list lstmt) (st : state) : lflow :=
  match body with
  | [] => LNext st
  | LIfRetNil c :: r =>
      match eval_cond (Some st) t None c with
      | None => LRet Fuel
      | Some true => LRet Clean
      | Some false => exec_loop_body vbody fuel g t r st
      end
  | LIfVisit c :: r =>
      match eval_cond (Some st) t None c with
      | None => LRet Fuel
      | Some true =>
          match run_visit vbody fuel g st t with
          | OutOfFuel => LRet Fuel
          | NoCyc st' => exec_loop_body vbody fuel g t r st'
          | Cyc cycle _ => LRet (Found cycle)
          end
      | Some false => exec_loop_body vbody fuel g t r st
      end
  end.

Fixpoint run_loop (vbody : list stmt) (lbody : list lstmt) (fuel : nat) (g : graph) (order : list nat) (st : state) : outcome :=
  match order with
  | [] => Clean
  | t :: rest =>
      match exec_loop_body vbody fuel g t lbody st with
      | LRet o => o
      | LNext st' => run_loop vbody lbody fuel g rest st'
      end
  end.

(* if cond { return nil } ... before the maps are created *)
Fixpoint exec_prologue (ps : list cond) (k : outcome) : outcome :=
  match ps with
  | [] => k
  | c :: r =>
      match eval_cond (Some (St [] [])) 0 None c with
      | None => Fuel
      | Some true => Clean
      | Some false => exec_prologue r k
      end
  end.

Definition run_check (prologue : list cond) (vbody : list stmt) (lbody : list lstmt) (g : graph) (order : list nat) : outcome :=
  exec_prologue prologue (run_loop vbody lbody (fuel_for g) g order (St [] [])).

(* cycleDetector.Check as regenerated from the source on this run *)
Definition src_detect : graph -> list nat -> outcome := run_check check_prologue visit_body check_body.

(* ---- one detector kept between runs (Model/C06.v, run_session) ---- *)
(* what a cycleDetector can carry from one Check to the next: its fields as regenerated from the
   source, without the pointer to the graph *)
Definition src_persistent : list dfield :=
  filter (fun f => match f with DGraph => false | DStopped => true end) detector_fields.

(* a session in which every Check is the regenerated one *)
Definition src_session : world -> list event -> list ran := run_session src_detect.
