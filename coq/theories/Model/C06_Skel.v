(* C06 - interpreter for the control skeleton of cycleDetector.Check that gotrans regenerates from
   src/core/cycle_detector.go (Gen/CycleVisit.v).  Executable, no proofs.  Proof/C06_Skel.v proves
   that interpreting the regenerated skeleton IS the hand model of Model/C06.v.

   A skeleton the interpreter cannot give a meaning to (a name used where Go has not bound it, a
   block that falls off its end, a nil cycle returned where the maps are no longer known) evaluates
   to OutOfFuel / Fuel, the values the theorems exclude. *)
From PlzV Require Import Base.Harness Model.C06 Gen.CycleVisit.

Definition in_set (s : setname) (st : state) (t : nat) : bool :=
  match s with SPartial => mem t (partial st) | SComplete => mem t (complete st) end.
Definition add_set (s : setname) (st : state) (t : nat) : state :=
  match s with
  | SPartial => St (t :: partial st) (complete st)
  | SComplete => St (partial st) (t :: complete st)
  end.
Definition del_set (s : setname) (st : state) (t : nat) : state :=
  match s with
  | SPartial => St (del t (partial st)) (complete st)
  | SComplete => St (partial st) (del t (complete st))
  end.

(* everything about a target that the regenerated code may ask for besides the two maps: what each
   accessor of its dependencies returns, and the numeric value of its State() *)
Record tenv := TE { te_deps : depsrc -> nat -> list nat; te_rank : nat -> N }.

(* a graph whose edges are all plain dependencies, targets in any state below Built *)
Definition plain_env (g : graph) : tenv := TE (fun _ t => deps g t) (fun _ => 0%N).

(* st: the maps, None where they are not tracked (after a visit that returned a cycle);
   cx: (cycle, done) where Go has bound them.  c.stopped is false throughout. *)
Fixpoint eval_cond (env : tenv) (st : option state) (t : nat) (cx : option (list nat * bool)) (c : cond) : option bool :=
  match c with
  | CStopped => Some false
  | CStateGe s => Some (N.leb (gstate_rank s) (te_rank env t))
  | CIn s => option_map (fun st => in_set s st t) st
  | CDone => option_map snd cx
  | CTargetIsLast => option_map (fun p => Nat.eqb t (last (fst p) 0)) cx
  | CTargetIsFirst => option_map (fun p => Nat.eqb t (hd 0 (fst p))) cx
  | CNot a => option_map negb (eval_cond env st t cx a)
  | COr a b => match eval_cond env st t cx a, eval_cond env st t cx b with
               | Some x, Some y => Some (x || y) | _, _ => None end
  | CAnd a b => match eval_cond env st t cx a, eval_cond env st t cx b with
                | Some x, Some y => Some (x && y) | _, _ => None end
  end.

Inductive flow := FNext (st : state) | FRet (r : res) | FBad.

(* return k, done *)
Definition do_ret (st : option state) (t : nat) (cx : option (list nat * bool)) (k : cyc) (done : bool) : flow :=
  match k, cx, st with
  | KNil, _, Some st => FRet (NoCyc st)
  | KSelf, _, _ => FRet (Cyc [t] done)
  | KCycle, Some (c, _), _ => FRet (Cyc c done)
  | KPrepend, Some (c, _), _ => FRet (Cyc (t :: c) done)
  | KAppend, Some (c, _), _ => FRet (Cyc (c ++ [t]) done)
  | _, _, _ => FBad
  end.

Fixpoint exec_inner (env : tenv) (t : nat) (cx : option (list nat * bool)) (body : list istmt) : flow :=
  match body with
  | [] => FBad
  | IIf c k d :: r =>
      match eval_cond env None t cx c with
      | None => FBad
      | Some true => do_ret None t cx k d
      | Some false => exec_inner env t cx r
      end
  | IRet k d :: _ => do_ret None t cx k d
  end.

Fixpoint exec_range (vis : state -> nat -> res) (env : tenv) (t : nat) (inner : list istmt) (ds : list nat) (st : state) : flow :=
  match ds with
  | [] => FNext st
  | dep :: ds' =>
      match vis st dep with
      | OutOfFuel => FRet OutOfFuel
      | NoCyc st' => exec_range vis env t inner ds' st'
      | Cyc c done => exec_inner env t (Some (c, done)) inner
      end
  end.

Fixpoint exec_body (vis : state -> nat -> res) (env : tenv) (t : nat) (body : list stmt) (st : state) : flow :=
  match body with
  | [] => FBad
  | SIf c k d :: r =>
      match eval_cond env (Some st) t None c with
      | None => FBad
      | Some true => do_ret (Some st) t None k d
      | Some false => exec_body vis env t r st
      end
  | SIfAddRet c adds k d :: r =>
      match eval_cond env (Some st) t None c with
      | None => FBad
      | Some true => do_ret (Some (fold_left (fun st' s => add_set s st' t) adds st)) t None k d
      | Some false => exec_body vis env t r st
      end
  | SAdd s :: r => exec_body vis env t r (add_set s st t)
  | SDel s :: r => exec_body vis env t r (del_set s st t)
  | SRange src inner :: r =>
      match exec_range vis env t inner (te_deps env src t) st with
      | FNext st' => exec_body vis env t r st'
      | other => other
      end
  | SRet k d :: _ => do_ret (Some st) t None k d
  end.

Fixpoint run_visit (body : list stmt) (fuel : nat) (env : tenv) (st : state) (t : nat) : res :=
  match fuel with
  | O => OutOfFuel
  | S f => match exec_body (run_visit body f env) env t body st with
           | FRet r => r
           | _ => OutOfFuel
           end
  end.

Inductive lflow := LNext (st : state) | LRet (o : outcome).

(* errCycle.Cycle: the slice visit returned, or something the model has no meaning for (the out-of-fuel
   value, which the theorems exclude) *)
Definition reported (r : report) (cycle : list nat) : outcome :=
  match r with RCycle => Found cycle | RThrough => Fuel end.

Fixpoint exec_loop_body (vbody : list stmt) (fuel : nat) (env : tenv) (t : nat) (body : list lstmt) (st : state) : lflow :=
  match body with
  | [] => LNext st
  | LIfRetNil c :: r =>
      match eval_cond env (Some st) t None c with
      | None => LRet Fuel
      | Some true => LRet Clean
      | Some false => exec_loop_body vbody fuel env t r st
      end
  | LIfVisit c rep :: r =>
      match eval_cond env (Some st) t None c with
      | None => LRet Fuel
      | Some true =>
          match run_visit vbody fuel env st t with
          | OutOfFuel => LRet Fuel
          | NoCyc st' => exec_loop_body vbody fuel env t r st'
          | Cyc cycle _ => LRet (reported rep cycle)
          end
      | Some false => exec_loop_body vbody fuel env t r st
      end
  end.

Fixpoint run_loop (vbody : list stmt) (lbody : list lstmt) (fuel : nat) (env : tenv) (order : list nat) (st : state) : outcome :=
  match order with
  | [] => Clean
  | t :: rest =>
      match exec_loop_body vbody fuel env t lbody st with
      | LRet o => o
      | LNext st' => run_loop vbody lbody fuel env rest st'
      end
  end.

(* if cond { return nil } ... before the maps are created; a condition on a target has no meaning here *)
Fixpoint exec_prologue (ps : list cond) (k : outcome) : outcome :=
  match ps with
  | [] => k
  | c :: r =>
      match c with
      | CStopped => exec_prologue r k
      | _ => Fuel
      end
  end.

Definition run_check (prologue : list cond) (vbody : list stmt) (lbody : list lstmt) (fuel : nat) (env : tenv) (order : list nat) : outcome :=
  exec_prologue prologue (run_loop vbody lbody fuel env order (St [] [])).

(* cycleDetector.Check as regenerated from the source on this run, on targets whose accessors and states
   are given by env; fuel as for a graph of n targets *)
Definition src_detect_env (n : nat) (env : tenv) (order : list nat) : outcome :=
  run_check check_prologue visit_body check_body (S n) env order.

(* ... on a graph of plain dependencies *)
Definition src_detect (g : graph) (order : list nat) : outcome := src_detect_env (length g) (plain_env g) order.

(* ---- edge kinds: the accessors as regenerated from build_target.go ---- *)
Definition has_flag (d : depflag) (f : flags) : bool :=
  match d with FSource => f_source f | FInternal => f_internal f | FRuntime => f_runtime f | FData => f_data f end.
Definition src_excl (s : depsrc) : list depflag :=
  match s with DepsAll => dependencies_excl | DepsBuild => build_dependencies_excl end.
(* for _, deps := range target.dependencies { if <none of the excluding flags> { for _, dep := range deps.deps { ret = append(ret, dep) } } }; sort.Sort(ret) *)
Definition src_row (ranks : list nat) (s : depsrc) (l : list dinfo) : list nat :=
  sort_by (rank_fn ranks)
    (flat_map (fun di => if existsb (fun d => has_flag d (d_flags di)) (src_excl s) then [] else d_deps di) l).
(* the targets of a world of declared and resolved dependencies of all kinds, in states given by rk *)
Definition kinded_env (ranks : list nat) (w : kworld) (rk : nat -> N) : tenv :=
  TE (fun s t => src_row ranks s (nth t w [])) rk.

(* ---- one detector kept between runs (Model/C06.v, run_session) ---- *)
(* what a cycleDetector can carry from one Check to the next: its fields as regenerated from the
   source, without the pointer to the graph *)
Definition src_persistent : list dfield :=
  filter (fun f => match f with DGraph => false | DStopped => true end) detector_fields.

(* a session in which every Check is the regenerated one *)
Definition src_session : world -> list event -> list ran := run_session src_detect.
