(* C12 - directory cache: faithful, atomic store and retrieve.
   Executable model of dirCache.Store / storeFiles / storeFile / storeCompressed(2) /
   ensureStoreReady / Retrieve / retrieve / retrieveFiles / retrieveCompressed /
   ensureRetrieveReady (src/cache/dir_cache.go) and fs.RecursiveLink (src/fs/copy.go).
   No proofs here.

   The file system is an association list path -> node.  A path is a list of components.
   Only the directory of ONE target inside the cache is modelled; in it the final entry of the
   key under consideration is called K and the temporary entry the store assembles is called
   K=  (dir_cache.go: getPath / getFullPath(..., "=")).  For a compressed cache K and K= are
   single files (<key>.tar.gz, <key>=.tar.gz) holding a tarball.

   Store is a LIST of primitive steps in code order; a crash after n steps is `firstn n`.
   Retrieve is a function of the file-system state. *)
From PlzV Require Import Base.Harness.

Definition path := list str.
Definition path_eqb : path -> path -> bool := list_eqb str_eqb.

Fixpoint is_prefix (p q : path) : bool :=
  match p, q with
  | [], _ => true
  | a :: p', b :: q' => str_eqb a b && is_prefix p' q'
  | _ :: _, [] => false
  end.

(* what an output tree is made of: regular file (content, user exec bit), symlink (target as
   written), directory *)
Inductive ent := F (c : str) (x : bool) | L (t : str) | D.

(* a tree in walk order (godirwalk: a directory, then its children sorted by name) *)
Definition tree := list (path * ent).

(* what the cache directory holds: the above, or a complete tarball, or an unreadable
   (partly written) tarball *)
Inductive node := E (e : ent) | Tar (t : tree) | Junk.
Definition fs := list (path * node).

(* ---- association-list operations (all are filters, so that they commute) ---- *)
Fixpoint lookup {A} (p : path) (l : list (path * A)) : option A :=
  match l with
  | [] => None
  | (q, v) :: r => if path_eqb q p then Some v else lookup p r
  end.
Definition mem {A} (p : path) (l : list (path * A)) : bool := existsb (fun e => path_eqb (fst e) p) l.
Definition remove {A} (p : path) (l : list (path * A)) := filter (fun e => negb (path_eqb (fst e) p)) l.
Definition sub {A} (p : path) (l : list (path * A)) := filter (fun e => is_prefix p (fst e)) l.
Definition drop_sub {A} (p : path) (l : list (path * A)) := filter (fun e => negb (is_prefix p (fst e))) l.
Definition strip {A} (n : nat) (l : list (path * A)) := map (fun e => (skipn n (fst e), snd e)) l.

(* ---- primitive steps ---- *)
Inductive step :=
| SMkdir (p : path)             (* mkdir; nothing happens when p exists (MkdirAll) *)
| SUnlink (p : path)            (* unlink / rmdir of exactly p *)
| SAdd (p : path) (n : node)    (* link, symlink, create, or rewrite of p *)
| SRename (a b : path).

Definition is_dirn (n : node) : bool := match n with E D => true | _ => false end.

(* rename(2): a must exist; b must be absent, or an empty directory when a is a directory, or a
   non-directory when a is one.  Store ignores the error (a warning / IsNotExist). *)
Definition rename_ok (a b : path) (st : fs) : bool :=
  match lookup a st with
  | None => false
  | Some na =>
      match sub b st with
      | [] => true
      | [(q, nb)] => path_eqb q b && Bool.eqb (is_dirn na) (is_dirn nb)
      | _ => false
      end
  end.

Definition reprefix (a b : path) (e : path * node) : path * node :=
  if is_prefix a (fst e) then (b ++ skipn (length a) (fst e), snd e) else e.

Definition exec (st : fs) (s : step) : fs :=
  match s with
  | SMkdir p => if mem p st then st else st ++ [(p, E D)]
  | SUnlink p => remove p st
  | SAdd p n => remove p st ++ [(p, n)]
  | SRename a b => if rename_ok a b st then map (reprefix a b) (drop_sub b st) else st
  end.

Definition run (l : list step) (st : fs) : fs := fold_left exec l st.

Definition kK : str := s "K".
Definition kT : str := s "K=".

(* fs.RemoveAll(p) = os.RemoveAll: unlinks everything below p, children before their directory,
   each directory in readdir order.  `order` is that order (it depends on the file system, the
   harness reads it off the real directory; the theorems hold for every order).  Paths that
   `order` does not mention are removed afterwards, last entry first. *)
Definition rm_paths (order : list path) (p : path) (st : fs) : list path :=
  filter (fun q => is_prefix p q && mem q st) order
  ++ rev (filter (fun q => negb (existsb (path_eqb q) order)) (map fst (sub p st))).
Definition rm_steps (order : list path) (p : path) (st : fs) : list step := map SUnlink (rm_paths order p st).

(* ---- Store, uncompressed (dir_cache.go:35-47, 55-57, 162-178; copy.go:55-73) ---- *)

(* RecursiveLink's action on one walked entry: MkdirAll for a directory, Link/Symlink otherwise *)
Definition add_step (pre : path) (e : path * ent) : step :=
  match snd e with
  | D => SMkdir (pre ++ fst e)
  | x => SAdd (pre ++ fst e) (E x)
  end.

(* RecursiveLink(outFile, cachedFile): Lstat fails -> only a warning, nothing stored for `o` *)
Definition link_steps (pre : path) (src : tree) (o : str) : list step :=
  match lookup [o] src with
  | None => []
  | Some _ => map (add_step pre) (sub [o] src)
  end.

(* storeFile: ensureStoreReady (MkdirAll of the temp dir, RemoveAll of the file's old copy in it),
   then RecursiveLink *)
Definition out_steps (order : list path) (src : tree) (st : fs) (o : str) : list step :=
  [SMkdir [kT]] ++ rm_steps order [kT; o] (exec st (SMkdir [kT])) ++ link_steps [kT] src o.

Fixpoint outs_steps (order : list path) (src : tree) (st : fs) (outs : list str) : list step :=
  match outs with
  | [] => []
  | o :: r => let l := out_steps order src st o in l ++ outs_steps order src (run l st) r
  end.

Definition store_plain (order : list path) (st : fs) (outs : list str) (src : tree) : list step :=
  let a := rm_steps order [kK] st in                       (* fs.RemoveAll(cacheDir)       :39 *)
  let b := outs_steps order src (run a st) outs in         (* storeFiles                   :43 *)
  a ++ b ++ [SRename [kT] [kK]].                           (* os.Rename(tmpDir, cacheDir)  :44 *)

(* ---- Store, compressed (dir_cache.go:63-119) ---- *)

(* the archive: for each output in turn, its walk *)
Definition pack (src : tree) (outs : list str) : tree := flat_map (fun o => sub [o] src) outs.
Definition all_present (src : tree) (outs : list str) : bool := forallb (fun o => mem [o] src) outs.

Definition store_comp (order : list path) (st : fs) (outs : list str) (src : tree) : list step :=
  let a := rm_steps order [kK] st in                       (* fs.RemoveAll(cacheDir)            *)
  let b := rm_steps order [kT] (run a st) in               (* ensureStoreReady(tmp)             *)
  a ++ b ++ [SAdd [kT] Junk]                               (* os.Create(tmp)                    *)
    ++ (if all_present src outs
        then [SAdd [kT] (Tar (pack src outs))]             (* all headers and contents, Close   *)
        else [SUnlink [kT]])                               (* walk error: RemoveAll(tmp)        *)
    ++ [SRename [kT] [kK]].

Definition store_steps (c : bool) := if c then store_comp else store_plain.

(* ---- Retrieve ---- *)
Inductive result := Miss | Hit (t : tree).

Definition ents (l : fs) : tree :=
  flat_map (fun e => match snd e with E x => [(fst e, x)] | _ => [] end) l.

(* RecursiveLink into the output directory *)
Definition put (out : tree) (e : path * ent) : tree :=
  match snd e with
  | D => if mem (fst e) out then out else out ++ [e]
  | _ => remove (fst e) out ++ [e]
  end.

(* retrieveFiles, uncompressed loop; `out` is the output directory, initially clean.
   `st1` is the state at the existence check of the entry, `st` the state the files are read in
   (the same state unless a store runs concurrently). *)
Fixpoint retr_plain (st : fs) (outs : list str) (out : tree) : result :=
  match outs with
  | [] => Hit out
  | o :: r =>
      let out1 := drop_sub [o] out in                      (* ensureRetrieveReady: RemoveAll(realOut) *)
      match lookup [kK; o] st with
      | None => Miss                                       (* Lstat: not exist -> found = false *)
      | Some _ => retr_plain st r (fold_left put (strip 1 (ents (sub [kK; o] st))) out1)
      end
  end.

(* proper, non-empty prefixes of p, shortest first *)
Fixpoint parents (p : path) : list path :=
  match p with
  | [] => []
  | a :: r => match r with [] => [] | _ => [a] :: map (cons a) (parents r) end
  end.

(* retrieveCompressed, one archive entry: ensureRetrieveReady (MkdirAll of the parent, RemoveAll of
   the path), then mkdir / symlink / create+write *)
Definition unpack1 (out : tree) (e : path * ent) : tree :=
  let out1 := fold_left (fun o q => if mem q o then o else o ++ [(q, D)]) (parents (fst e)) out in
  drop_sub (fst e) out1 ++ [e].
Definition unpack (t : tree) : tree := fold_left unpack1 t [].

(* retrieve / retrieveFiles.  Two observation points: st1 at `PathExists(cacheDir)`, st2 for
   everything after it. *)
Definition retrieve2 (c : bool) (st1 st2 : fs) (outs : list str) : result :=
  match lookup [kK] st1 with
  | None => Miss
  | Some _ =>
      match outs with
      | [] => Hit []                                       (* len(outs) == 0 -> true *)
      | _ =>
          if c then
            match lookup [kK] st2 with
            | None => Hit []      (* os.Open: not exist; retrieve() keeps found = true  :187-193 *)
            | Some (Tar t) => Hit (unpack t)
            | Some _ => Miss      (* gzip / tar error: "Failed to retrieve", false *)
            end
          else retr_plain st2 outs []
      end
  end.

Definition retrieve (c : bool) (st : fs) (outs : list str) : result := retrieve2 c st st outs.

(* ---- well-formed stored trees: in walk order every entry comes after its parents and before
        everything below it, and no path occurs twice ---- *)
Fixpoint wfb_from (acc t : tree) : bool :=
  match t with
  | [] => true
  | (p, e) :: r =>
      forallb (fun q => mem q acc) (parents p)
      && negb (existsb (fun e' => is_prefix p (fst e')) acc)
      && wfb_from (acc ++ [(p, e)]) r
  end.
Definition wfb (t : tree) : bool := wfb_from [] t.

(* a left-over temporary entry is a directory (uncompressed cache) *)
Definition tmp_ok (st : fs) : bool :=
  match lookup [kT] st with None => true | Some (E D) => true | _ => false end.

(* ---- executable classifier of the known defect classes (see Props/C12.v) ---- *)
Definition key_absent (st : fs) : bool := match sub [kK] st with [] => true | _ => false end.

(* every output of the old entry is a single object (a file, a symlink or an empty directory) *)
Definition old_single (st : fs) (outs : list str) : bool :=
  forallb (fun o => Nat.leb (length (sub [kK; o] st)) 1) outs.

Definition crash_defect (c : bool) (st : fs) (outs : list str) : option str :=
  if key_absent st then None
  else if c then (if Nat.leb (length (sub [kK] st)) 1 then None else Some (s "crash-overwrite-dir-partial-hit"))
  else if old_single st outs then None else Some (s "crash-overwrite-dir-partial-hit").

Definition race_defect (c : bool) (st : fs) : option str :=
  if key_absent st then None
  else Some (if c then s "race-compressed-notexist-hit" else s "race-overwrite-partial-hit").

(* ---- read faults: an ERROR RETURN (no process death) part-way through the walk of an output ----
   fault = Some (o, k): while output o is walked the callback fails at its (k+1)-th entry (an entry
   the archiver / copier cannot store: a unix socket, a vanished or unreadable file); k entries of o
   have been handled.  None: no such fault.  An output that does not exist at all (or whose root is
   the unstorable object) is simply absent from `src`: the Lstat / Walk of the root fails. *)
Definition fault := option (str * nat).

(* the entries of o handled before the walk stops, and whether it was aborted *)
Definition walk_f (src : tree) (f : fault) (o : str) : tree * bool :=
  match f with
  | Some (fo, k) => if str_eqb fo o then (firstn k (sub [o] src), true) else (sub [o] src, false)
  | None => (sub [o] src, false)
  end.

(* uncompressed: storeFile only LOGS RecursiveLink's error (dir_cache.go:170-173); the loop of
   storeFiles goes on with the next output and Store renames the temporary entry all the same *)
Definition link_steps_f (pre : path) (src : tree) (f : fault) (o : str) : list step :=
  match lookup [o] src with
  | None => []
  | Some _ => map (add_step pre) (fst (walk_f src f o))
  end.

Definition out_steps_f (order : list path) (src : tree) (f : fault) (st : fs) (o : str) : list step :=
  [SMkdir [kT]] ++ rm_steps order [kT; o] (exec st (SMkdir [kT])) ++ link_steps_f [kT] src f o.

Fixpoint outs_steps_f (order : list path) (src : tree) (f : fault) (st : fs) (outs : list str) : list step :=
  match outs with
  | [] => []
  | o :: r => let l := out_steps_f order src f st o in l ++ outs_steps_f order src f (run l st) r
  end.

Definition store_plain_f (order : list path) (st : fs) (outs : list str) (src : tree) (f : fault) : list step :=
  let a := rm_steps order [kK] st in
  let b := outs_steps_f order src f (run a st) outs in
  a ++ b ++ [SRename [kT] [kK]].

(* compressed: storeCompressed2's loop returns the first error; what has been archived so far, and
   whether the loop ended in an error *)
Fixpoint pack_f (src : tree) (f : fault) (outs : list str) : tree * bool :=
  match outs with
  | [] => ([], false)
  | o :: r =>
      if mem [o] src then
        let w := walk_f src f o in
        if snd w then (fst w, true)
        else let t := pack_f src f r in (fst w ++ fst t, snd t)
      else ([], true)                                      (* fs.Walk: the root does not exist *)
  end.

(* the error path of storeCompressed2 / storeCompressed (dir_cache.go:65-69, 88-94): the deferred
   tw.Close / gw.Close / bw.Flush / f.Close finish a VALID archive of what was written so far
   (AFail), then storeCompressed removes the temporary file; Store's rename then fails with
   not-exist, which it ignores.  `rm_on_err` is whether that removal is there (it is: Gen.C12Store,
   Proof.C12_Gen.comp_error_follows_source). *)
Definition comp_tail (rm_on_err : bool) (t : tree * bool) : list step :=
  SAdd [kT] (Tar (fst t)) :: (if snd t then (if rm_on_err then [SUnlink [kT]] else []) else []).

Definition store_comp_g (rm_on_err : bool) (order : list path) (st : fs) (outs : list str) (src : tree) (f : fault) : list step :=
  let a := rm_steps order [kK] st in
  let b := rm_steps order [kT] (run a st) in
  a ++ b ++ [SAdd [kT] Junk] ++ comp_tail rm_on_err (pack_f src f outs) ++ [SRename [kT] [kK]].

Definition store_comp_f := store_comp_g true.

Definition store_steps_f (c : bool) := if c then store_comp_f else store_plain_f.

(* the source tree a faulted uncompressed store effectively stores: of output o only the first k
   walked entries *)
Fixpoint cut (o : str) (k : nat) (src : tree) : tree :=
  match src with
  | [] => []
  | e :: r =>
      if is_prefix [o] (fst e)
      then match k with 0 => cut o 0 r | S k' => e :: cut o k' r end
      else e :: cut o k r
  end.

(* classifier of the known defect class of faulted stores: an uncompressed store whose walk of a
   directory output stops after at least its root and before its end *)
Definition fault_defect (c : bool) (src : tree) (f : fault) : option str :=
  match f with
  | None => None
  | Some (o, k) =>
      if c then None
      else if Nat.eqb k 0 || Nat.leb (length (sub [o] src)) k || negb (mem [o] src) then None
      else Some (s "plain-store-walk-error-partial-hit")
  end.

(* ---- Retrieve into an output directory that is NOT clean; outputs that may be nested ----
   (dir_cache.go: retrieveFiles' loop :209-219, retrieveCompressed :239-275, ensureRetrieveReady
   :280-293; copy.go RecursiveCopyOrLinkFile / CopyOrLinkFile; fs.go WriteFile)

   An output is now a PATH below the target's out directory ("sub/tree" = [sub; tree]); `out` is the
   out directory as a previous build (another version of the same outputs, anything else) left it.
   ensureRetrieveReady is a list of operations per kind of path (one that contains a '/', one that
   does not): the lists the source has are src_opsN / src_opsT below; Gen.C12Store.retrieve_ready is
   the function as gotrans reads it and Proof.C12_Gen ties the two. *)
Inductive rop := OMkdirParent | ORemoveAll.

(* os.MkdirAll(filepath.Dir(fullOut)); a non-directory in the way is not modelled (see props/C12.json) *)
Definition mk_parents (p : path) (out : tree) : tree :=
  fold_left (fun o q => if mem q o then o else o ++ [(q, D)]) (parents p) out.

Definition ready_op (p : path) (out : tree) (o : rop) : tree :=
  match o with
  | OMkdirParent => mk_parents p out
  | ORemoveAll => drop_sub p out                             (* fs.RemoveAll(fullOut) *)
  end.
Definition ready (ops : list rop) (p : path) (out : tree) : tree := fold_left (ready_op p) ops out.

(* strings.ContainsRune(out, '/') *)
Definition nested (p : path) : bool := match p with _ :: _ :: _ => true | _ => false end.
Definition pick {A} (p : path) (n t : A) : A := if nested p then n else t.

Definition src_opsN : list rop := [OMkdirParent; ORemoveAll].
Definition src_opsT : list rop := [ORemoveAll].
Definition src_trunc : bool := false.                        (* os.O_WRONLY|os.O_CREATE  :262 *)

(* RecursiveLink's action on one walked entry when the destination may be occupied: MkdirAll for a
   directory; os.Symlink (EEXIST); os.Link, and on EEXIST the copy fallback, which writes a temporary
   file and renames it over the destination (that fails on a directory). None = an error, which
   retrieve() reports as a miss. *)
Definition place_p (out : tree) (e : path * ent) : option tree :=
  match lookup (fst e) out with
  | None => Some (out ++ [e])
  | Some old =>
      match snd e, old with
      | D, D => Some out
      | F _ _, D => None
      | F _ _, _ => Some (remove (fst e) out ++ [e])
      | _, _ => None
      end
  end.

(* retrieveCompressed's action on one archive entry: MkdirAll / os.Symlink / OpenFile(O_WRONLY|O_CREATE
   [|O_TRUNC when tr]) + io.Copy: an existing regular file keeps its mode and, without O_TRUNC, every
   byte behind the new content.  (A write THROUGH an existing symlink is reported as an error here;
   it is only reachable when the destination has not been removed.) *)
Definition place_c (tr : bool) (out : tree) (e : path * ent) : option tree :=
  match lookup (fst e) out with
  | None => Some (out ++ [e])
  | Some old =>
      match snd e, old with
      | D, D => Some out
      | F c _, F c0 x0 => Some (remove (fst e) out ++ [(fst e, F (if tr then c else c ++ skipn (length c) c0) x0)])
      | _, _ => None
      end
  end.

Definition opt_fold {A B} (f : A -> B -> option A) (l : list B) (a : option A) : option A :=
  fold_left (fun acc x => match acc with None => None | Some v => f v x end) l a.

Fixpoint retr_into_plain (opsN opsT : list rop) (st : fs) (outs : list path) (out : tree) : option tree :=
  match outs with
  | [] => Some out
  | p :: r =>
      let out1 := ready (pick p opsN opsT) p out in          (* ensureRetrieveReady(target, out) *)
      match lookup (kK :: p) st with
      | None => None                                         (* Lstat: not exist -> false, err *)
      | Some _ =>
          match opt_fold place_p (strip 1 (ents (sub (kK :: p) st))) (Some out1) with
          | None => None
          | Some out2 => retr_into_plain opsN opsT st r out2
          end
      end
  end.

Definition unpack1_into (tr : bool) (opsN opsT : list rop) (out : tree) (e : path * ent) : option tree :=
  place_c tr (ready (pick (fst e) opsN opsT) (fst e) out) e. (* ensureRetrieveReady(target, hdr.Name) *)

(* Retrieve(key, outs) with the out directory in state out0: None = false, Some r = true and the out
   directory afterwards *)
Definition retrieve_into (c tr : bool) (opsN opsT : list rop) (st : fs) (outs : list path) (out0 : tree) : option tree :=
  match lookup [kK] st with
  | None => None
  | Some n =>
      match outs with
      | [] => Some out0
      | _ =>
          if c then match n with
                    | Tar t => opt_fold (unpack1_into tr opsN opsT) t (Some out0)
                    | _ => None
                    end
          else retr_into_plain opsN opsT st outs out0
      end
  end.

(* what a retrieve of the trees T of `outs` must leave: per output, the intermediate directories,
   nothing of what was below the output before, the stored tree *)
Definition restore1 (T : tree) (acc : tree) (p : path) : tree := drop_sub p (mk_parents p acc) ++ sub p T.
Definition restore (T : tree) (outs : list path) (out0 : tree) : tree := fold_left (restore1 T) outs out0.

(* the archive of nested outputs, and the walk-order condition relative to an output's own root *)
Definition packp (T : tree) (outs : list path) : tree := flat_map (fun p => sub p T) outs.
Definition pars (p : path) : tree := map (fun q => (q, D)) (parents p).
Definition rootb (p : path) (X : tree) : bool := match X with (q, _) :: _ => path_eqb q p | [] => false end.
Definition trees_okb (T : tree) (outs : list path) : bool :=
  forallb (fun p => rootb p (sub p T) && wfb_from (pars p) (sub p T)) outs.
Fixpoint indepb (outs : list path) : bool :=
  match outs with
  | [] => true
  | p :: r => forallb (fun q => negb (is_prefix p q) && negb (is_prefix q p)) r && indepb r
  end.

(* ---- correspondence cases ---- *)
Definition ent_eqb (a b : ent) : bool :=
  match a, b with
  | F c x, F c' x' => str_eqb c c' && Bool.eqb x x'
  | L t, L t' => str_eqb t t'
  | D, D => true
  | _, _ => false
  end.
Definition pe_eqb (a b : path * ent) : bool := path_eqb (fst a) (fst b) && ent_eqb (snd a) (snd b).
Definition node_eqb (a b : node) : bool :=
  match a, b with
  | E x, E y => ent_eqb x y
  | Tar t, Tar t' => list_eqb pe_eqb t t'
  | Junk, Junk => true
  | _, _ => false
  end.
Definition pn_eqb (a b : path * node) : bool := path_eqb (fst a) (fst b) && node_eqb (snd a) (snd b).

(* equal as sets of entries (listings come in different orders) *)
Definition set_eqb {A} (eqb : A -> A -> bool) (a b : list A) : bool :=
  Nat.eqb (length a) (length b) && forallb (fun x => existsb (eqb x) b) a && forallb (fun x => existsb (eqb x) a) b.

Definition result_eqb (a b : result) : bool :=
  match a, b with
  | Miss, Miss => true
  | Hit t, Hit t' => set_eqb pe_eqb t t'
  | _, _ => false
  end.

Inductive case :=
(* a store of `outs` of the output directory `src` into the cache state `prior`; when `crashed`
   the process was killed on entry to one of the store's syscalls.  Observed: the cache state
   afterwards and what a Retrieve into a clean output directory then returned / restored. *)
| CStore (c : bool) (order : list path) (prior : fs) (outs : list str) (src : tree)
         (crashed : bool) (post : fs) (res : result)
(* Retrieve of a key with no entry *)
| CMissing (c : bool) (st : fs) (outs : list str) (hit : bool)
(* a store that meets a read fault `f` (and / or outputs absent from `src`), run to its end, then a
   Retrieve into a clean output directory *)
| CFault (c : bool) (order : list path) (prior : fs) (outs : list str) (src : tree) (f : fault)
         (post : fs) (res : result)
(* a Retrieve of `outs` (paths, possibly nested) from the cache state `st` into an out directory that
   holds `out0`.  Observed: the return value and the out directory afterwards. *)
| CDirty (c : bool) (st : fs) (outs : list path) (out0 : tree) (hit : bool) (out1 : tree).

Definition check (k : case) : bool :=
  match k with
  | CStore c order prior outs src crashed post res =>
      let steps := store_steps c order prior outs src in
      (if crashed
       then existsb (fun n => set_eqb pn_eqb (run (firstn n steps) prior) post) (seq 0 (length steps))
       else set_eqb pn_eqb (run steps prior) post)
      && result_eqb (retrieve c post outs) res
      && (negb (all_present src outs) || wfb (pack src outs))
  | CMissing c st outs hit =>
      key_absent st && result_eqb (retrieve c st outs) Miss && negb hit
  | CFault c order prior outs src f post res =>
      set_eqb pn_eqb (run (store_steps_f c order prior outs src f) prior) post
      && result_eqb (retrieve c post outs) res
  | CDirty c st outs out0 hit out1 =>
      match retrieve_into c src_trunc src_opsN src_opsT st outs out0 with
      | None => negb hit
      | Some r => hit && set_eqb pe_eqb r out1
      end
  end.
