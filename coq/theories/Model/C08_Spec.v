(* C08 / C07 - the notions the two property statements are written in (definitions only, no proofs). *)
From Coq Require Import Permutation.
From PlzV Require Import Base.Harness Model.C08.

(* a stored state that the Go types and the adders of BuildTarget can produce *)
Definition wf (t : target) : Prop := wfb t = true.

(* the hash function is an arbitrary injective function: collision freedom of SHA-1 is the idealisation *)
Definition injective {A B} (H : A -> B) : Prop := forall a b, H a = H b -> a = b.

(* two listings of the same Go map / of the same set of declared dependencies *)
Definition val_perm (v1 v2 : value) : Prop :=
  match v1, v2 with
  | VLabels a, VLabels b => Permutation a b
  | VGroups a, VGroups b => Permutation a b
  | VLGroups a, VLGroups b => Permutation a b
  | VMap a, VMap b => Permutation a b
  | VOptMap (Some a), VOptMap (Some b) => Permutation a b
  | _, _ => v1 = v2
  end.

(* the two targets have the same value of field f: equal, or for maps and the dependency set equal up to the
   (meaningless) listing order *)
Definition field_same (f : field) (t1 t2 : target) : Prop :=
  if unordered f then val_perm (get f t1) (get f t2) else get f t1 = get f t2.

(* C07: two presentations of one and the same target *)
Definition same_target (t t' : target) : Prop := forall f, field_same f t t'.

(* C08: the attributes that can change the build action or its outputs (the list of the property statement).
   `command` is the command selected for the current configuration; `pass_env values` are the values of the passed
   variables. *)
Definition relevant_fields : list field :=
  [FSrcs; FNamedSrcs; FOuts; FNamedOuts; FOptionalOuts; FDeps; FTools; FNamedTools; FEnv; FPassEnv; FLabels; FSecrets;
   FNamedSecrets; FBinary; FSandbox; FOutputDirs; FEntryPoints; FFileContent; FRequires; FProvides].

Definition effective_command (t : target) : str :=
  get_command (t_config t) (t_fallback_config t) (t_commands t) (t_command t).

Definition passed_values (t : target) : list str :=
  match t_pass_env t with None => [] | Some names => map (getenv (t_environ t)) names end.

Definition same_definition (t1 t2 : target) : Prop :=
  (forall f, In f relevant_fields -> field_same f t1 t2)
  /\ effective_command t1 = effective_command t2
  /\ passed_values t1 = passed_values t2.
