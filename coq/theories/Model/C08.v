(* C08 / C07 - the rule hash.  Executable model of build.ruleHash (src/build/incrementality.go) and of the
   accessors of core.BuildTarget it iterates (src/core/build_target.go, build_label.go).  No proofs here.

   The body of ruleHash is NOT written down here: it is regenerated from the source by `gotrans RuleHashProg`
   as a list of `item`s (Gen/RuleHashProg.v).  This file gives the target record, the emit language and its
   semantics `ser` (the byte stream written into the hash).  The hash function itself (SHA-1) never appears:
   the theorems take it as a variable H with an injectivity hypothesis. *)
From PlzV Require Import Base.Harness.

(* ---------------------------------------------------------------------------------------------- labels *)

(* core.BuildLabel *)
Record label := Label { l_sub : str; l_pkg : str; l_name : str }.

Definition label_eqb (a b : label) : bool :=
  str_eqb (l_sub a) (l_sub b) && str_eqb (l_pkg a) (l_pkg b) && str_eqb (l_name a) (l_name b).

(* BuildLabel.Less: Subrepo, then PackageName, then Name *)
Definition label_cmp (a b : label) : comparison :=
  match str_cmp (l_sub a) (l_sub b) with
  | Eq => match str_cmp (l_pkg a) (l_pkg b) with
          | Eq => str_cmp (l_name a) (l_name b)
          | c => c
          end
  | c => c
  end.
Definition label_leb (a b : label) : bool := match label_cmp a b with Gt => false | _ => true end.

Definition is_nil {A} (l : list A) : bool := match l with [] => true | _ => false end.

(* BuildLabel.String *)
Definition label_string (l : label) : str :=
  if is_nil (l_sub l) && is_nil (l_pkg l) && is_nil (l_name l) then []
  else if is_nil (l_sub l) && is_nil (l_pkg l) && str_eqb (l_name l) (s "_ORIGINAL") then s "command-line targets"
  else
    let base := s "//" ++ l_pkg l in
    let base := if is_nil (l_sub l) then base else s "///" ++ l_sub l ++ base in
    if str_eqb (l_name l) (s "...") then
      (if is_nil (l_pkg l) then base ++ s "..." else base ++ s "/...")
    else base ++ s ":" ++ l_name l.

(* ---------------------------------------------------------------------------------------------- sorting *)

(* sort.Strings / sort.Sort: the result is the unique sorted arrangement (keys of a Go map are distinct, declared
   dependencies are deduplicated), so any correct sort may stand for them. *)
Fixpoint insert_by {A} (leb : A -> A -> bool) (x : A) (l : list A) : list A :=
  match l with
  | [] => [x]
  | y :: r => if leb x y then x :: l else y :: insert_by leb x r
  end.
Definition isort {A} (leb : A -> A -> bool) (l : list A) : list A := fold_right (insert_by leb) [] l.

Definition key_leb {V} (a b : str * V) : bool := str_leb (fst a) (fst b).
Definition sort_keys {V} (m : list (str * V)) : list (str * V) := isort key_leb m.
Definition sort_labels (l : list label) : list label := isort label_leb l.

(* a Go map is an association list with distinct keys, listed in the (arbitrary) iteration order *)
Fixpoint lookup {V} (k : str) (m : list (str * V)) : option V :=
  match m with
  | [] => None
  | (k', v) :: r => if str_eqb k k' then Some v else lookup k r
  end.

(* ---------------------------------------------------------------------------------------------- the target *)

Definition groups := list (str * list str).      (* map[string][]string / map[string][]BuildInput *)
Definition lgroups := list (str * list label).   (* map[string][]BuildLabel *)
Definition smap := list (str * str).             (* map[string]string *)

(* core.BuildTarget restricted to what ruleHash reads, plus the attributes named by C08 that it does not
   read (tools, named tools, named secrets), plus the three things ruleHash reads from outside the target:
   state.Config.Build.Config / FallbackConfig (GetCommand) and the process environment (os.Getenv).
   A BuildInput is represented by its String(), which is all that ruleHash uses.  Test fields are flattened;
   t_is_test is `target.Test != nil`. *)
Record target := Target {
  t_label : label;
  t_deps : list label;              (* target.dependencies[i].declared, in stored order (order of resolution/insertion) *)
  t_visibility : list label;
  t_hashes : list str;
  t_srcs : list str;
  t_named_srcs : groups;
  t_outs : list str;
  t_named_outs : groups;
  t_licences : list str;
  t_optional_outs : list str;
  t_labels : list str;
  t_secrets : list str;
  t_named_secrets : groups;
  t_binary : bool;
  t_subrepo : bool;
  t_sandbox : bool;
  t_command : str;
  t_commands : option smap;         (* nil map = None *)
  t_config : str;
  t_fallback_config : str;
  t_needs_transitive : bool;
  t_output_is_complete : bool;
  t_stamp : bool;
  t_filegroup : bool;
  t_textfile : bool;
  t_remotefile : bool;
  t_local : bool;
  t_src_list_files : bool;
  t_exit_on_error : bool;
  t_requires : list str;
  t_provides : lgroups;
  t_pre_build : bool;               (* PreBuildFunction != nil *)
  t_post_build : bool;
  t_pass_env : option (list str);   (* nil pointer = None *)
  t_environ : smap;                 (* os.Getenv *)
  t_output_dirs : list str;
  t_entry_points : smap;
  t_env : smap;
  t_file_content : str;
  t_data : list str;
  t_named_data : groups;
  t_is_test : bool;
  t_test_outputs : list str;
  t_test_sandbox : bool;
  t_test_command : str;
  t_test_commands : option smap;
  t_test_args_placeholder : str;
  t_tools : list str;
  t_named_tools : groups
}.

Inductive field :=
| FLabel | FDeps | FVisibility | FHashes | FSrcs | FNamedSrcs | FOuts | FNamedOuts | FLicences | FOptionalOuts
| FLabels | FSecrets | FNamedSecrets | FBinary | FSubrepo | FSandbox | FCommand | FCommands | FConfig
| FFallbackConfig | FNeedsTransitive | FOutputIsComplete | FStamp | FFilegroup | FTextFile | FRemoteFile | FLocal
| FSrcListFiles | FExitOnError | FRequires | FProvides | FPreBuild | FPostBuild | FPassEnv | FEnviron
| FOutputDirs | FEntryPoints | FEnv | FFileContent | FData | FNamedData | FIsTest | FTestOutputs | FTestSandbox
| FTestCommand | FTestCommands | FTestArgsPlaceholder | FTools | FNamedTools.

Scheme Equality for field.

Definition all_fields : list field :=
  [FLabel; FDeps; FVisibility; FHashes; FSrcs; FNamedSrcs; FOuts; FNamedOuts; FLicences; FOptionalOuts;
   FLabels; FSecrets; FNamedSecrets; FBinary; FSubrepo; FSandbox; FCommand; FCommands; FConfig;
   FFallbackConfig; FNeedsTransitive; FOutputIsComplete; FStamp; FFilegroup; FTextFile; FRemoteFile; FLocal;
   FSrcListFiles; FExitOnError; FRequires; FProvides; FPreBuild; FPostBuild; FPassEnv; FEnviron;
   FOutputDirs; FEntryPoints; FEnv; FFileContent; FData; FNamedData; FIsTest; FTestOutputs; FTestSandbox;
   FTestCommand; FTestCommands; FTestArgsPlaceholder; FTools; FNamedTools].

Inductive value :=
| VStr (x : str)
| VBool (b : bool)
| VList (l : list str)
| VOptList (l : option (list str))
| VLabel (l : label)
| VLabels (l : list label)
| VGroups (g : groups)
| VLGroups (g : lgroups)
| VMap (m : smap)
| VOptMap (m : option smap).

Definition get (f : field) (t : target) : value :=
  match f with
  | FLabel => VLabel (t_label t) | FDeps => VLabels (t_deps t) | FVisibility => VLabels (t_visibility t)
  | FHashes => VList (t_hashes t) | FSrcs => VList (t_srcs t) | FNamedSrcs => VGroups (t_named_srcs t)
  | FOuts => VList (t_outs t) | FNamedOuts => VGroups (t_named_outs t) | FLicences => VList (t_licences t)
  | FOptionalOuts => VList (t_optional_outs t) | FLabels => VList (t_labels t) | FSecrets => VList (t_secrets t)
  | FNamedSecrets => VGroups (t_named_secrets t) | FBinary => VBool (t_binary t) | FSubrepo => VBool (t_subrepo t)
  | FSandbox => VBool (t_sandbox t) | FCommand => VStr (t_command t) | FCommands => VOptMap (t_commands t)
  | FConfig => VStr (t_config t) | FFallbackConfig => VStr (t_fallback_config t)
  | FNeedsTransitive => VBool (t_needs_transitive t) | FOutputIsComplete => VBool (t_output_is_complete t)
  | FStamp => VBool (t_stamp t) | FFilegroup => VBool (t_filegroup t) | FTextFile => VBool (t_textfile t)
  | FRemoteFile => VBool (t_remotefile t) | FLocal => VBool (t_local t) | FSrcListFiles => VBool (t_src_list_files t)
  | FExitOnError => VBool (t_exit_on_error t) | FRequires => VList (t_requires t) | FProvides => VLGroups (t_provides t)
  | FPreBuild => VBool (t_pre_build t) | FPostBuild => VBool (t_post_build t) | FPassEnv => VOptList (t_pass_env t)
  | FEnviron => VMap (t_environ t) | FOutputDirs => VList (t_output_dirs t) | FEntryPoints => VMap (t_entry_points t)
  | FEnv => VMap (t_env t) | FFileContent => VStr (t_file_content t) | FData => VList (t_data t)
  | FNamedData => VGroups (t_named_data t) | FIsTest => VBool (t_is_test t) | FTestOutputs => VList (t_test_outputs t)
  | FTestSandbox => VBool (t_test_sandbox t) | FTestCommand => VStr (t_test_command t)
  | FTestCommands => VOptMap (t_test_commands t) | FTestArgsPlaceholder => VStr (t_test_args_placeholder t)
  | FTools => VList (t_tools t) | FNamedTools => VGroups (t_named_tools t)
  end.

Definition as_str v := match v with VStr x => x | _ => [] end.
Definition as_bool v := match v with VBool b => b | _ => false end.
Definition as_list v := match v with VList l => l | _ => [] end.
Definition as_optlist v := match v with VOptList l => l | _ => None end.
Definition as_label v := match v with VLabel l => l | _ => Label [] [] [] end.
Definition as_labels v := match v with VLabels l => l | _ => [] end.
Definition as_groups v := match v with VGroups g => g | _ => [] end.
Definition as_lgroups v := match v with VLGroups g => g | _ => [] end.
Definition as_map v := match v with VMap m => m | _ => [] end.
Definition as_optmap v := match v with VOptMap m => m | _ => None end.

(* Fields whose Go representation has no meaningful order: maps (Go randomises the iteration order) and the
   dependency slice (filled in the order in which sources, tools and deps are added / resolved). *)
Definition unordered (f : field) : bool :=
  match f with
  | FDeps | FNamedSrcs | FNamedOuts | FNamedSecrets | FCommands | FProvides | FEntryPoints | FEnv | FNamedData
  | FTestCommands | FNamedTools => true
  | _ => false
  end.

(* Well-formed stored states: the keys of every Go map are distinct; the slices kept by BuildTarget.insert (outs,
   optional outs, each named output group, test outputs) are strictly increasing and have no empty entry. *)
Fixpoint nodup_keys {V} (m : list (str * V)) : bool :=
  match m with
  | [] => true
  | kv :: r => negb (existsb (fun kv' => str_eqb (fst kv) (fst kv')) r) && nodup_keys r
  end.

Fixpoint sorted_set (l : list str) : bool :=
  match l with
  | [] => true
  | x :: r => negb (is_nil x) && match r with [] => true | y :: _ => str_ltb x y end && sorted_set r
  end.

Definition keys_ok (v : value) : bool :=
  match v with
  | VGroups g => nodup_keys g
  | VLGroups g => nodup_keys g
  | VMap m => nodup_keys m
  | VOptMap (Some m) => nodup_keys m
  | _ => true
  end.

Definition wfb (t : target) : bool :=
  forallb (fun f => keys_ok (get f t)) all_fields
  && sorted_set (t_outs t) && sorted_set (t_optional_outs t)
  && forallb (fun g => sorted_set (snd g)) (t_named_outs t) && sorted_set (t_test_outputs t).

(* ---------------------------------------------------------------------------------------------- getCommand *)

(* BuildTarget.getCommand(state, commands, singleCommand):
     if commands == nil -> singleCommand
     else commands[config] if present, else commands[fallback] if present,
     else the command of the highest config name (`if config > highestConfig`, starting from "", ""). *)
Definition highest (m : smap) : str * str :=
  fold_left (fun acc kv => if str_ltb (fst acc) (fst kv) then kv else acc) m ([], []).

Definition get_command (config fallback : str) (commands : option smap) (single : str) : str :=
  match commands with
  | None => single
  | Some m =>
      match lookup config m with
      | Some c => c
      | None => match lookup fallback m with
                | Some c => c
                | None => snd (highest m)
                end
      end
  end.

(* ---------------------------------------------------------------------------------------------- emit language *)

Inductive emit :=
| EStr (f : field)                              (* h.Write([]byte(target.F)) *)
| ELabelStr (f : field)                         (* h.Write([]byte(target.F.String())), F a BuildLabel *)
| ECommand (test : bool)                        (* h.Write([]byte(target.GetCommand(state))) / GetTestCommand *)
| EList (f : field)                             (* for _, x := range target.F { h.Write([]byte(x)) }, stored order *)
| ELabels (f : field)                           (* same, F a []BuildLabel, x.String() *)
| ESortedLabels (f : field)                     (* same over a copy sorted with BuildLabel.Less (DeclaredDependencies) *)
| EInputs (sorted : bool) (f g : field)         (* allBuildInputs(F, G): F, then the groups of G by key order; x.String() *)
| ENamedGroups (sorted : bool) (f : field)      (* for each key: write key, then each entry of the group *)
| ELabelGroups (sorted : bool) (f : field)      (* same, entries are BuildLabels *)
| EMap (sorted : bool) (sep : str) (f : field)  (* hashMap: for each key: write key + sep + value *)
| EBool (f : field) (tv fv : str)               (* hashBool *)
| EOptBool (f : field) (tv : str)               (* hashOptionalBool *)
| EPassEnv (sep : str)                          (* if PassEnv != nil: for each name: name, sep, os.Getenv(name) *)
| EConst (b : str).

(* `sorted = false` means the source ranges over the Go map directly: the order is then whatever order the
   presentation lists the entries in. *)

Inductive cond := CRuntime | CIsTest.
Definition item := (list cond * emit)%type.
Definition program := list item.

Definition order_of {V} (sorted : bool) (m : list (str * V)) := if sorted then sort_keys m else m.

Definition getenv (environ : smap) (name : str) : str :=
  match lookup name environ with Some v => v | None => [] end.

(* the sequence of strings an emit writes (each element is one or more h.Write calls; only the concatenation
   is observable) *)
Definition toks (t : target) (e : emit) : list str :=
  match e with
  | EStr f => [as_str (get f t)]
  | ELabelStr f => [label_string (as_label (get f t))]
  | ECommand false => [get_command (as_str (get FConfig t)) (as_str (get FFallbackConfig t))
                                   (as_optmap (get FCommands t)) (as_str (get FCommand t))]
  | ECommand true => [get_command (as_str (get FConfig t)) (as_str (get FFallbackConfig t))
                                  (as_optmap (get FTestCommands t)) (as_str (get FTestCommand t))]
  | EList f => as_list (get f t)
  | ELabels f => map label_string (as_labels (get f t))
  | ESortedLabels f => map label_string (sort_labels (as_labels (get f t)))
  | EInputs sorted f g => as_list (get f t) ++ flat_map snd (order_of sorted (as_groups (get g t)))
  | ENamedGroups sorted f => flat_map (fun kv => fst kv :: snd kv) (order_of sorted (as_groups (get f t)))
  | ELabelGroups sorted f =>
      flat_map (fun kv => fst kv :: map label_string (snd kv)) (order_of sorted (as_lgroups (get f t)))
  | EMap sorted sep f => map (fun kv => fst kv ++ sep ++ snd kv) (order_of sorted (as_map (get f t)))
  | EBool f tv fv => [if as_bool (get f t) then tv else fv]
  | EOptBool f tv => if as_bool (get f t) then [tv] else []
  | EPassEnv sep =>
      match as_optlist (get FPassEnv t) with
      | None => []
      | Some names => map (fun n => n ++ sep ++ getenv (as_map (get FEnviron t)) n) names
      end
  | EConst b => [b]
  end.

Definition enc (t : target) (e : emit) : str := concat (toks t e).

Definition cond_holds (rt : bool) (t : target) (c : cond) : bool :=
  match c with CRuntime => rt | CIsTest => as_bool (get FIsTest t) end.

Definition item_toks (rt : bool) (t : target) (it : item) : list str :=
  if forallb (cond_holds rt t) (fst it) then toks t (snd it) else [].

Definition item_enc (rt : bool) (t : target) (it : item) : str := concat (item_toks rt t it).

(* the byte stream ruleHash(state, target, runtime) writes into the hash *)
Definition ser (p : program) (rt : bool) (t : target) : str := flat_map (item_enc rt t) p.

(* fields an emit / a condition depends on *)
Definition reads (e : emit) : list field :=
  match e with
  | EStr f | ELabelStr f | EList f | ELabels f | ESortedLabels f | ENamedGroups _ f | ELabelGroups _ f
  | EMap _ _ f | EBool f _ _ | EOptBool f _ => [f]
  | ECommand false => [FCommand; FCommands; FConfig; FFallbackConfig]
  | ECommand true => [FTestCommand; FTestCommands; FConfig; FFallbackConfig]
  | EInputs _ f g => [f; g]
  | EPassEnv _ => [FPassEnv; FEnviron]
  | EConst _ => []
  end.
Definition cond_reads (c : cond) : list field := match c with CRuntime => [] | CIsTest => [FIsTest] end.
Definition item_reads (it : item) : list field := flat_map cond_reads (fst it) ++ reads (snd it).

Definition field_in (f : field) (l : list field) : bool := existsb (field_beq f) l.

(* program analysis used by the C08 theorems: the unique item that reads f *)
Fixpoint locate (f : field) (p : program) : option (program * item * program) :=
  match p with
  | [] => None
  | it :: r =>
      if field_in f (item_reads it) then
        (if existsb (fun i => field_in f (item_reads i)) r then None else Some ([], it, r))
      else match locate f r with
           | Some (pre, x, post) => Some (it :: pre, x, post)
           | None => None
           end
  end.

Definition read_count (f : field) (p : program) : nat :=
  length (filter (fun i => field_in f (item_reads i)) p).

Definition unread_fields (p : program) : list field := filter (fun f => Nat.eqb (read_count f p) 0) all_fields.
Definition multi_read_fields (p : program) : list field := filter (fun f => Nat.ltb 1 (read_count f p)) all_fields.

(* program analysis used by the C07 theorem: does the emit give the same bytes for every enumeration order
   of the unordered fields it reads? *)
Definition order_safe (e : emit) : bool :=
  match e with
  | EStr f | ELabelStr f | EList f | ELabels f | EBool f _ _ | EOptBool f _ => negb (unordered f)
  | ESortedLabels _ => true
  | ECommand _ => true
  | EInputs sorted f g => negb (unordered f) && (sorted || negb (unordered g))
  | ENamedGroups sorted f | ELabelGroups sorted f | EMap sorted _ f => sorted || negb (unordered f)
  | EPassEnv _ => true
  | EConst _ => true
  end.
Definition sorted_emits_only (p : program) : bool := forallb (fun it => order_safe (snd it)) p.

(* ---------------------------------------------------------------------------------------------- cases *)

Inductive case :=
| CStream (rt : bool) (t : target) (stream : str)
    (* stream = what the Go interpreter of the same generated program wrote for the real target; the harness has
       checked sha1(stream) = build.RuleHash(state, target, rt, false) *)
| CPerm (rt : bool) (t t' : target) (stream : str).
    (* two presentations of one target (maps and dependencies inserted in different orders), one stream *)

Definition check_with (p : program) (c : case) : bool :=
  match c with
  | CStream rt t st => str_eqb (ser p rt t) st
  | CPerm rt t t' st => str_eqb (ser p rt t) st && str_eqb (ser p rt t') st
  end.

(* ---------------------------------------------------------------------------------------------- the RuleHash wrapper (syntax) *)

(* build.RuleHash(state, target, runtime, postBuild) wraps ruleHash with a memo stored on the target
   (target.RuleHash).  Its shape is regenerated from the source by gotrans as a `wrapper` (Gen/RuleHashProg.v
   `rule_hash_wrapper`); the semantics (a small state machine) is in Model/C08_Cache.v.
     if <w_bypass> { return ruleHash(state, target, <w_bypass_rt>) }
     if len(target.RuleHash) != 0 { return target.RuleHash }
     target.RuleHash = ruleHash(state, target, <w_fill_rt>)
     return target.RuleHash
   and BuildTarget.BuildCouldModifyTarget() = <w_could_modify>. *)
Inductive wvar := WRuntime | WPostBuild | WCouldModify.   (* runtime, postBuild, target.BuildCouldModifyTarget() *)
Inductive mvar := MPostBuildFn | MOutputDirs.              (* PostBuildFunction != nil, len(OutputDirectories) > 0 *)

Inductive bexp (V : Type) :=
| BVar (v : V)
| BConst (b : bool)
| BNot (a : bexp V)
| BAnd (a b : bexp V)
| BOr (a b : bexp V).
Arguments BVar {V} v.
Arguments BConst {V} b.
Arguments BNot {V} a.
Arguments BAnd {V} a b.
Arguments BOr {V} a b.

Inductive rtarg := RtParam | RtConst (b : bool).          (* third argument of a ruleHash call: `runtime` or a literal *)

Record wrapper := Wrapper {
  w_bypass : bexp wvar;
  w_bypass_rt : rtarg;
  w_fill_rt : rtarg;
  w_could_modify : bexp mvar
}.

(* ---------------------------------------------------------------------------------------------- guards and the stored-hash reader (syntax) *)

(* A `continue` guard at the head of ruleHash's loop over target.AllSources(): gotrans regenerates the disjunction of the
   guard conditions as `srcs_skip` (Gen/RuleHashProg.v; `BConst false` when the loop has no guard).  The only atom the
   translator knows is `_, ok := source.Label(); ok`.  Semantics: Model/C08_Srcs.v. *)
Inductive ivar := IVIsLabel.

(* The body of the loop `for _, output := range target.FullOutputs() { ... }` of build.readRuleHashFromXattrs, regenerated by
   gotrans as `stored_reader_body`.  Variables: h (declared before the loop), b (declared in the body).  Semantics:
   Model/C08_Store.v. *)
Inductive rvar := RVh | RVb.
Inductive ratom :=
| RNil (v : rvar)          (* v == nil *)
| REqual.                  (* bytes.Equal(h, b) *)
Inductive rexp :=
| RRead                    (* fs.ReadAttr(output, xattrName, state.XattrsSupported) *)
| RVar (v : rvar).
Inductive rstmt :=
| RSkip
| RSeq (a b : rstmt)
| RAssign (v : rvar) (e : rexp)                (* v = e  /  v := e *)
| RIf (c : bexp ratom) (th el : rstmt)
| RReturnEmpty.                                (* return ruleHashes{} *)
