(* C01 - histories of the engine model (Model/Engine.v): a sequence of `plz build` invocations on successive
   trees, possibly with rm -rf plz-out in between, and the executable side conditions of the theorems.
   No proofs here. *)
From PlzV Require Import Base.Harness Model.Engine.

Inductive hstep :=
| HBuild (cache_on : bool) (r : repo) (req : list str)    (* edit the tree to r, then `plz build req` *)
| HWipe.                                                   (* rm -rf plz-out *)

Definition do_hstep (st : store) (s : hstep) : store :=
  match s with
  | HBuild c r req => rn_st (plz_build c r req st)
  | HWipe => wipe st
  end.
Definition run_history (h : list hstep) (st : store) : store := fold_left do_hstep h st.

Definition history_targets (h : list hstep) : list target :=
  flat_map (fun s => match s with HBuild _ r _ => r_targets r | HWipe => [] end) h.

(* no source of a target is the anonymous path under which the outputs of tools enter the source key (Engine.nopath: the
   output "" of a target of the root package; such an output cannot exist) *)
Definition named_srcs (r : repo) : bool :=
  forallb (fun t => forallb (fun p => negb (path_eqb p nopath)) (all_paths r t)) (r_targets r).

(* every build is of a well-formed request: see wf_repo / distinct_srcs in Model/Engine.v *)
Definition step_wf (s : hstep) : bool :=
  match s with
  | HBuild _ r req => wf_repo (restrict r req) && distinct_srcs (restrict r req) && named_srcs (restrict r req)
  | HWipe => true
  end.

(* ------------------------------------------------------------------------------------------ *)
(* tools.  The source key of a target carries, for every output of every tool, the path-hash stream and NO path
   (Engine.anon_ins).  A command that reads only the CONTENT of its tools (UseTool, UseNTool) or does not mention $TOOLS at
   all is a function of what the key names; the command ToolNames writes the NAMES of the tool outputs, which the key does
   not name.  tool_blind: the result of the command does not depend on the names of the tool outputs. *)
Definition tool_blind (t : target) : bool :=
  match t_kind t with Genrule ToolNames => false | _ => true end.

(* the turn of a target that is not tool_blind: its rule key, the source key computed at its turn and the paths of the outputs
   of its tools at that moment *)
Definition turn := (str * skey * list path)%type.
Definition turn_of (r : repo) (rn : run) (t : target) : list turn :=
  if tool_blind t || blocked r rn t then []
  else match source_key r (rn_st rn) t with
       | Some sk => [(t_defkey t, sk, tool_paths r t)]
       | None => []
       end.
Fixpoint turns_in (c : bool) (r : repo) (ts : list target) (rn : run) : list turn :=
  match ts with
  | [] => []
  | t :: rest => turn_of r rn t ++ turns_in c r rest (build_one c r rn t)
  end.
Definition plz_turns (c : bool) (r : repo) (req : list str) (st : store) : list turn :=
  turns_in c (restrict r req) (r_targets (restrict r req)) (mkRun st [] []).
(* the trees the filegroups of the history link: files, or whole source directories *)
Definition fg_srcs_of (s : hstep) : list node :=
  match s with
  | HBuild _ r req =>
      flat_map (fun t => if is_filegroup t
                         then flat_map (fun f => match fg_src r (join (t_pkg t) f) with Some n => [n] | None => [] end) (outputs t)
                         else []) (r_targets (restrict r req))
  | HWipe => []
  end.
Definition history_fg_srcs (h : list hstep) : list node := flat_map fg_srcs_of h.
(* no filegroup of the history has a DIRECTORY source: the path hash of a directory is not injective (the known
   defect class of directory outputs reaches filegroups of directories the same way); executable *)
Definition fg_dir_free (h : list hstep) : bool :=
  forallb (fun n => match n with File _ _ => true | Dir _ => false end) (history_fg_srcs h).
Definition cache_free (h : list hstep) : bool :=
  forallb (fun s => match s with HBuild c _ _ => negb c | HWipe => true end) h.

(* no build of the history rebuilt a target with output_dirs after the post-build check, i.e. with the outputs of
   an old metadata file still attached (Engine.stale_flow): the known defect class of such targets, executable *)
Fixpoint quiet_history (h : list hstep) (st : store) : bool :=
  match h with
  | [] => true
  | s :: rest =>
      (match s with HBuild c r req => negb (plz_stale c r req st) | HWipe => true end)
      && quiet_history rest (do_hstep st s)
  end.
(* the turns of a whole history *)
Fixpoint history_turns (h : list hstep) (st : store) : list turn :=
  match h with
  | [] => []
  | s :: rest =>
      (match s with HBuild c r req => plz_turns c r req st | HWipe => [] end) ++ history_turns rest (do_hstep st s)
  end.
(* two turns of the same definition under the same source key with DIFFERENT tool output paths: between them an output of a
   tool was renamed (or tool outputs were permuted) with identical content, and the command reads the names *)
Definition turn_clash (x y : turn) : bool :=
  str_eqb (fst (fst x)) (fst (fst y)) && skey_eqb (snd (fst x)) (snd (fst y)) && negb (list_eqb path_eqb (snd x) (snd y)).
Definition clash_free (l : list turn) : bool := forallb (fun x => forallb (fun y => negb (turn_clash x y)) l) l.
(* THE classifier of the known defect class tool-output-renamed-same-content-user-not-rebuilt: no two turns of the history
   clash.  Histories in which tool outputs change content, appear, disappear or are renamed with other content pass: the
   source key differs.  Executable: evaluated along the model's run like quiet_history. *)
Definition tool_rename_free (h : list hstep) : bool := clash_free (history_turns h empty_store).

(* the cache of targets with output_dirs is not modelled: the cache theorems (C02) exclude them *)
Definition od_free (h : list hstep) : Prop := forall t, In t (history_targets h) -> could_modify t = false.

(* the rule key identifies the definition throughout the history (the C08 assumption: the generator avoids
   the collision classes of the unframed rule-hash stream) *)
Definition defkeys_consistent (ts : list target) : Prop :=
  forall t t', In t ts -> In t' ts -> t_defkey t = t_defkey t' -> t = t'.

Definition wf_history (h : list hstep) : Prop :=
  forallb step_wf h = true /\ defkeys_consistent (history_targets h).

(* the known defect class: an action whose output is a directory (the path-hash stream of a directory is
   not injective).  None = outside the class. *)
Definition defect_class (t : target) : option str :=
  match t_kind t with
  | Genrule CopyDir => Some (s "directory-output")
  | _ => None
  end.
Definition dir_free (h : list hstep) : Prop := forall t, In t (history_targets h) -> defect_class t = None.

(* the 2-step witnesses of the refutation: d copies its sources into the directory d_dir *)
Definition wit_target (srcs : list str) (key : str) : target :=
  mkT (s "//p:d") (s "p") (Genrule CopyDir) (map SFile srcs) [s "d_dir"] key.
Definition wit_r1 : repo := mkR [(s "p/a.txt", s "x")] [wit_target [s "a.txt"] (s "k1")].
Definition wit_r2 : repo := mkR [(s "p/b.txt", s "x")] [wit_target [s "b.txt"] (s "k2")].

(* the 2-step witness of the tools refutation: use writes the NAMES of its tool's outputs; the output of the tool gen is
   renamed gen.out -> gen2.out with identical content *)
Definition tw_gen (out key : str) : target := mkT (s "//p:gen") (s "p") (Genrule (Const (s "tool"))) [] [out] key.
Definition tw_use : target := mkT (s "//p:use") (s "p") (Genrule ToolNames) [STool (s "//p:gen")] [s "use.out"] (s "ku").
Definition tw_r1 : repo := mkR [] [tw_gen (s "gen.out") (s "k1"); tw_use].
Definition tw_r2 : repo := mkR [] [tw_gen (s "gen2.out") (s "k2"); tw_use].

(* the 3-step witness of the output_dirs refutation: t copies its sources into _o; tree A: srcs [a.txt], declared out
   m1; tree B: srcs [a.txt, b.txt], declared out m2; then tree A again *)
Definition od_target (srcs : list str) (out key : str) : target :=
  mkT (s "//p:t") (s "p") (Genrule OutDir) (map SFile srcs) [out] key.
Definition od_rA : repo := mkR [(s "p/a.txt", s "A"); (s "p/b.txt", s "B")] [od_target [s "a.txt"] (s "m1") (s "kA")].
Definition od_rB : repo := mkR [(s "p/a.txt", s "A"); (s "p/b.txt", s "B")] [od_target [s "a.txt"; s "b.txt"] (s "m2") (s "kB")].
