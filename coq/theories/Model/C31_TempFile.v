(* C31 - what the per-target lock does NOT cover: a resource shared BETWEEN targets.

   Model/C31_Protocol.v shows that the flock on plz-out/tmp/<pkg>/<name>._build.lock keeps every other
   process out of the critical section of THE SAME target.  Two different filegroups may legally re-export
   the same source file: both write plz-out/{gen,bin}/<pkg>/<file>.  They are different targets, hence
   different flocks (and theFilegroupBuilder.mutex is a sync.Mutex: one process only), so processes that
   build one each are inside their sections at the same time and meet in one directory.  What keeps them
   apart there is not a lock but the way fs.WriteFile (behind fs.CopyFile: binary filegroups, the
   link-to-copy fallback) writes: into a temporary sibling of the destination, renamed onto it at the end.

   This file models n processes, process i building target tg i, all copying the same source (sz chunks)
   to the same destination, at the granularity of WriteFile's system calls:

       open the temporary file     its NAME follows the policy TRANSLATED from fs.go
                                   (Gen/C34Copy.v write_file_temp, the definition the C34 check uses):
                                     None      os.CreateTemp(dir, file): a name nobody else has  -> TUnique
                                     Some _    one fixed sibling name, opened O_CREATE|O_TRUNC    -> TFixed
                                   (an existing file of that name is emptied IN PLACE: same inode)
       io.Copy                     one chunk at a time, at the writer's own offset, into the INODE it opened
                                   (it does not matter what the inode is called by now)
       Close + os.Chmod(name)      by NAME: fails when the name is gone
       renameFile(name, to)        by NAME: fails when the name is gone; takes the name out of the directory
       on failure                  the build of the target fails, its failure path removes the target's
                                   outputs (RemoveOutputs): the destination is deleted

   The per-target lock is part of the model: a process cannot start while another process with the SAME
   target is between open and rename.  No proofs here. *)
From Coq Require Import String.
From PlzV Require Import Base.Harness.
From PlzV Require Gen.C34Copy.

Inductive tpolicy := TUnique | TFixed.

Definition tpolicy_of (g : option (String.string * String.string)) : tpolicy :=
  match g with None => TUnique | Some _ => TFixed end.

(* the policy of fs.WriteFile as it is in the source now *)
Definition tpolicy_now : tpolicy := tpolicy_of C34Copy.write_file_temp.

(* entries of the output directory: the destination, the temporary name that only process i uses, the one
   fixed temporary name *)
Inductive ent := ETo | ETmp (i : nat) | EFixed.

Definition ent_eqb (a b : ent) : bool :=
  match a, b with
  | ETo, ETo | EFixed, EFixed => true
  | ETmp i, ETmp j => Nat.eqb i j
  | _, _ => false
  end.

Definition tname (pol : tpolicy) (i : nat) : ent := match pol with TUnique => ETmp i | TFixed => EFixed end.

(* where a process is; x = the inode its descriptor refers to, k = chunks it has written *)
Inductive tpc := PStart | PWriting (x k : nat) | PClosed (x : nat) | PDone | PFailed.

Record tstate := mkT {
  t_dir : ent -> option nat;       (* name -> inode; a new inode is numbered after the process that created it *)
  t_data : nat -> option nat;      (* inode -> Some k: exactly the first k chunks of the source; None: anything else *)
  t_pc : nat -> tpc
}.

Definition upd_dir (d : ent -> option nat) (e : ent) (v : option nat) : ent -> option nat :=
  fun x => if ent_eqb x e then v else d x.
Definition upd_at {A} (f : nat -> A) (i : nat) (v : A) : nat -> A := fun x => if Nat.eqb x i then v else f x.

(* all writers copy the same source: a chunk written again is the same chunk; past the end = a hole *)
Definition write_chunk (c : option nat) (k : nat) : option nat :=
  match c with
  | Some j => if Nat.ltb k j then Some j else if Nat.eqb k j then Some (S j) else None
  | None => None
  end.

Definition holds_lock (p : tpc) : bool := match p with PWriting _ _ | PClosed _ => true | _ => false end.

(* the flock of the target of process i is held by another process *)
Definition tblocked (n : nat) (tg : nat -> nat) (st : tstate) (i : nat) : bool :=
  existsb (fun j => negb (Nat.eqb j i) && Nat.eqb (tg j) (tg i) && holds_lock (t_pc st j)) (seq 0 n).

(* the target fails: RemoveOutputs *)
Definition tfail (st : tstate) (i : nat) : tstate :=
  mkT (upd_dir (t_dir st) ETo None) (t_data st) (upd_at (t_pc st) i PFailed).

Definition tstep (pol : tpolicy) (sz n : nat) (tg : nat -> nat) (st : tstate) (i : nat) : option tstate :=
  if Nat.ltb i n then
    let t := tname pol i in
    match t_pc st i with
    | PStart =>
        if tblocked n tg st i then None
        else match t_dir st t with
             | None => Some (mkT (upd_dir (t_dir st) t (Some i)) (upd_at (t_data st) i (Some 0)) (upd_at (t_pc st) i (PWriting i 0)))
             | Some x =>
                 match pol with
                 | TUnique => Some (tfail st i)        (* O_EXCL; os.CreateTemp would try another name *)
                 | TFixed => Some (mkT (t_dir st) (upd_at (t_data st) x (Some 0)) (upd_at (t_pc st) i (PWriting x 0)))
                 end
             end
    | PWriting x k =>
        if Nat.ltb k sz
        then Some (mkT (t_dir st) (upd_at (t_data st) x (write_chunk (t_data st x) k)) (upd_at (t_pc st) i (PWriting x (S k))))
        else match t_dir st t with
             | Some _ => Some (mkT (t_dir st) (t_data st) (upd_at (t_pc st) i (PClosed x)))
             | None => Some (tfail st i)
             end
    | PClosed _ =>
        match t_dir st t with
        | Some y => Some (mkT (upd_dir (upd_dir (t_dir st) ETo (Some y)) t None) (t_data st) (upd_at (t_pc st) i PDone))
        | None => Some (tfail st i)
        end
    | PDone | PFailed => None
    end
  else None.

Definition tapply (pol : tpolicy) (sz n : nat) (tg : nat -> nat) (st : tstate) (i : nat) : tstate :=
  match tstep pol sz n tg st i with Some st' => st' | None => st end.
Definition trun (pol : tpolicy) (sz n : nat) (tg : nat -> nat) (sched : list nat) (st : tstate) : tstate :=
  fold_left (tapply pol sz n tg) sched st.

(* an empty output directory, nobody has started *)
Definition tinit : tstate := mkT (fun _ => None) (fun _ => None) (fun _ => PStart).

Definition is_failed (p : tpc) : bool := match p with PFailed => true | _ => false end.
Definition is_done (p : tpc) : bool := match p with PDone => true | _ => false end.

Definition nobody_failed (n : nat) (st : tstate) : bool := forallb (fun i => negb (is_failed (t_pc st i))) (seq 0 n).
Definition all_done (n : nat) (st : tstate) : bool := forallb (fun i => is_done (t_pc st i)) (seq 0 n).

Definition whole (sz : nat) (c : option nat) : bool := match c with Some k => Nat.eqb k sz | None => false end.

(* the destination is never seen partial: absent, or the whole source *)
Definition dest_atomic (sz : nat) (st : tstate) : bool :=
  match t_dir st ETo with None => true | Some x => whole sz (t_data st x) end.
Definition dest_whole (sz : nat) (st : tstate) : bool :=
  match t_dir st ETo with None => false | Some x => whole sz (t_data st x) end.

(* the property at this granularity: no invocation fails, the destination is never partial, and once one has
   finished the destination is what a solo build leaves *)
Definition tsafe (sz n : nat) (st : tstate) : bool :=
  nobody_failed n st && dest_atomic sz st
  && implb (existsb (fun i => is_done (t_pc st i)) (seq 0 n)) (dest_whole sz st).

(* the schedule of the seeded race: 0 opens, 1 opens, 0 copies, closes, renames; 1 copies and closes *)
Definition race_sched (sz : nat) : list nat := [0; 1] ++ repeat 0 (sz + 2) ++ repeat 1 (sz + 1).

(* what the correspondence check asks of this model: a run of the real binaries (harness stream
   copied-filegroup/shared-file: `targets` different binary filegroups re-exporting one large file, one
   invocation each) in which an invocation failed or the output differed from a solo build must not be one the
   model, with the policy read from the source, excludes *)
Definition model_safe_now (targets : nat) : bool :=
  tsafe 3 targets (trun tpolicy_now 3 targets (fun i => i) (race_sched 3) tinit).

Definition shared_check (targets invocations : nat) (interfered : bool) : bool :=
  Nat.leb 2 targets && Nat.leb 1 invocations && implb interfered (negb (model_safe_now targets)).
