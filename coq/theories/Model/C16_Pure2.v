(* C16 - the ENLARGED pure fragment of the BUILD language.  No proofs here.

   A second, larger heap-free REFERENCE evaluator over tree values (`qval`), in the style of Model/C16_Pure.v, which adds to
   that fragment:
     1. user-defined functions (def at top level with positional / keyword / scalar-constant default arguments, calls as
        expressions and as statements, return, recursion bounded by the fuel);
     2. list comprehensions (filtered and unfiltered, one or several loop names) and for / comprehensions over range(...)
        with a positive step, for loops with several names;
     3. the builtins len, str (scalars), bool, any, all, reversed, sorted (no key; ints only or strings only; reverse= also as
        a keyword), min, max, enumerate, zip (lists of equal length);
     4. dict literals whose keys are written in strictly ascending order, indexing of lists / strings / dicts, `in` on lists
        of scalars and on dicts, the methods get / keys / values / items, d | e when the merged keys are again ascending;
     5. the string methods join, split (with a separator), startswith, endswith, upper, lower (ASCII);
     6. (third deepening) `fmt % x` for a string or int x with the verbs %s %d %%, slices l[a:b] of lists and of strings
        without multi-byte runes whose normalised bounds satisfy 0 <= a <= b (asp raises otherwise, CPython clamps),
        unpacking assignment a, b = e.
   The evaluator is parametrised by the integer operators exactly as in C16_Pure.v and refuses (Err EUnsupported) at every
   type-dependent trigger of a known difference between asp and CPython.  `pure2_run fuel p = Ok g` is the formal reading
   of "p stays in the enlarged fragment, and integer arithmetic is safe along the run"; Proof/C16_Pure2.v proves that then
   BOTH dialects of Model/C16_Eval.v compute g - up to the spare capacity the asp hook prints for a list built by a
   filtered comprehension, which CPython does not have (`ostrip`). *)
From Coq Require Import String.
From PlzV Require Import Base.Harness Model.C16_Syntax Model.C16_Ops Model.C16_Prim Model.C16_Eval Model.C16 Model.C16_Pure Model.C16_Sort.
Local Open Scope Z_scope.

(* ---------------------------------------------------------------- values *)
Inductive qval :=
| QInt (z : Z) | QStr (x : str) | QBool (b : bool) | QNone
| QList (l : list qval)
| QDict (kvs : list (str * qval))        (* keys strictly ascending *)
| QFunc (id : nat).

Definition qenv := list (str * qval).
Inductive qdefault := QDNo | QDConst (p : qval).
Record qfunc := QFn { qf_name : str; qf_args : list (str * qdefault); qf_body : list stmt }.
Record qstate := QS { qg : qenv; ql : list qenv; qfs : list qfunc }.

Fixpoint qenv_get (n : str) (e : qenv) : option qval :=
  match e with [] => None | (k, v) :: r => if str_eqb n k then Some v else qenv_get n r end.
Fixpoint qenv_set (n : str) (v : qval) (e : qenv) : qenv :=
  match e with
  | [] => [(n, v)]
  | (k, w) :: r => if str_eqb n k then (k, v) :: r else (k, w) :: qenv_set n v r
  end.
Fixpoint qenvs_get (n : str) (l : list qenv) : option qval :=
  match l with [] => None | e :: r => match qenv_get n e with Some v => Some v | None => qenvs_get n r end end.

Definition qlookup (n : str) (ps : qstate) : option qval :=
  match qenvs_get n (ql ps) with Some v => Some v | None => qenv_get n (qg ps) end.
Definition qset_var (n : str) (v : qval) (ps : qstate) : qstate :=
  match ql ps with
  | e :: r => QS (qg ps) (qenv_set n v e :: r) (qfs ps)
  | [] => QS (qenv_set n v (qg ps)) [] (qfs ps)
  end.

Definition qtruthy (p : qval) : bool :=
  match p with
  | QInt z => negb (z =? 0)
  | QStr x => match x with [] => false | _ => true end
  | QBool b => b
  | QNone => false
  | QList l => match l with [] => false | _ => true end
  | QDict l => match l with [] => false | _ => true end
  | QFunc _ => true
  end.

(* == on scalars; None: outside the fragment (int against bool: DeepEqual; containers; functions) *)
Definition qeq (a b : qval) : option bool :=
  match a, b with
  | QInt x, QInt y => Some (x =? y)
  | QStr x, QStr y => Some (str_eqb x y)
  | QBool x, QBool y => Some (Bool.eqb x y)
  | QNone, QNone => Some true
  | QInt _, QBool _ | QBool _, QInt _ => None
  | (QList _ | QDict _ | QFunc _), _ | _, (QList _ | QDict _ | QFunc _) => None
  | _, _ => Some false
  end.

(* < > <= >= on two ints or two strings *)
Definition qcmp (o : binop) (a b : qval) : res bool :=
  match a, b with
  | QInt x, QInt y => Ok (cmp_by o (Z.compare x y))
  | QStr x, QStr y => Ok (cmp_by o (str_cmp x y))
  | _, _ => Err EUnsupported
  end.

Definition qstr (p : qval) : option str :=
  match p with
  | QInt z => Some (z_to_str z)
  | QStr x => Some x
  | QBool b => Some (if b then s "True" else s "False")
  | QNone => Some (s "None")
  | _ => None
  end.

Definition qtype_tag (v : qval) : N :=
  match v with
  | QNone => 1 | QBool _ => 2 | QInt _ => 4 | QStr _ => 8
  | QList _ => 16 | QDict _ => 32 | QFunc _ => 64
  end%N.

(* strictly ascending keys *)
Fixpoint ssorted (l : list str) : bool :=
  match l with
  | [] => true
  | x :: r => match r with [] => true | y :: _ => str_ltb x y && ssorted r end
  end.

(* x in l for a list of scalars: the first element equal to x decides; an int/bool or container comparison on the way refuses *)
Fixpoint qin_list (x : qval) (l : list qval) : res bool :=
  match l with
  | [] => Ok false
  | y :: r => match qeq y x with
              | Some true => Ok true
              | Some false => qin_list x r
              | None => Err EUnsupported
              end
  end.

Definition q_is_int (v : qval) : bool := match v with QInt _ => true | _ => false end.
Definition q_is_str (v : qval) : bool := match v with QStr _ => true | _ => false end.

(* sort.Slice on at most 12 elements = insertion sort, as Model/C16_Eval.v has it *)
Fixpoint qins_left (less : qval -> qval -> res bool) (x : qval) (rev_sorted : list qval) : res (list qval) :=
  match rev_sorted with
  | [] => Ok [x]
  | y :: r => do lt <- less x y; if lt then do r' <- qins_left less x r; Ok (y :: r') else Ok (x :: rev_sorted)
  end.
Definition qinsertion_sort (less : qval -> qval -> res bool) (l : list qval) : res (list qval) :=
  do r <- (fix go (l acc : list qval) : res (list qval) :=
             match l with [] => Ok acc | x :: rest => do acc' <- qins_left less x acc; go rest acc' end) l [];
  Ok (rev r).

Fixpoint qminmax (better : qval -> qval -> res bool) (r : list qval) (cur : qval) : res qval :=
  match r with
  | [] => Ok cur
  | y :: r' => do b <- better y cur; qminmax better r' (if b then y else cur)
  end.
Definition qsort_go (less : qval -> qval -> res bool) : list qval -> list qval -> res (list qval) :=
  fix go (l acc : list qval) : res (list qval) :=
    match l with [] => Ok acc | x :: rest => do acc' <- qins_left less x acc; go rest acc' end.

Fixpoint qrange_up (n : nat) (a c : Z) : list qval :=
  match n with O => [] | S k => QInt a :: qrange_up k (a + c) c end.

(* the items of range(a, b, c) where both dialects agree: a positive step *)
Definition qrange_items (a b c : Z) : res (list qval) :=
  if c >? 0 then
    if a <? b then
      let n := (b - a + c - 1) / c in
      if n >? range_bound then Err EUnsupported else Ok (qrange_up (Z.to_nat n) a c)
    else Ok []
  else Err EUnsupported.

Definition qscalar (v : value) : qval :=
  match v with VInt z => QInt z | VStr x => QStr x | VBool b => QBool b | _ => QNone end.

Definition qsig_of (sg : list (str * N * option value)) : list (str * N * option qval) :=
  map (fun e => (fst (fst e), snd (fst e), option_map qscalar (snd e))) sg.

Definition qvalidate (t : N) (def : option qval) (v : qval) : res qval :=
  if N.eqb t 0 then Ok v
  else match v with
       | QNone => match def with None => Ok v | Some dv => Ok dv end
       | _ => if negb (N.eqb (N.land (qtype_tag v) t) 0) then Ok v else Err EType
       end.

(* pyIndex + bounds *)
Definition qnth_index {A} (l : list A) (i : Z) (dflt : A) : res A :=
  do j <- py_index (length l) i false;
  if (0 <=? j) && (j <? Z.of_nat (length l)) then Ok (nth (Z.to_nat j) l dflt) else Err EType.

Definition qindex (obj idx : qval) : res qval :=
  match obj, idx with
  | QList l, QInt i => qnth_index l i QNone
  | QStr x, QInt i => do r <- qnth_index (runes x) i []; Ok (QStr r)
  | QDict kvs, QStr k => match qenv_get k kvs with Some v => Ok v | None => Err EType end
  | _, _ => Err EUnsupported
  end.

(* interpretSlice: the bound as asp normalises it (pyIndex with the slice flag) *)
Definition qbound (len : nat) (o : option qval) (def : Z) : res Z :=
  match o with
  | None => Ok def
  | Some (QInt i) => py_index len i true
  | Some _ => Err EType
  end.

Definition qcut {A} (l : list A) (a b : Z) : list A := firstn (Z.to_nat (b - a)) (skipn (Z.to_nat a) l).

(* obj[lo:hi].  Refused: bounds with a < 0 or b < a after normalisation (asp raises, CPython clamps to an empty result), and
   strings with multi-byte runes (asp normalises against the rune count and cuts BYTES) *)
Definition qslice (obj : qval) (lo hi : option qval) : res qval :=
  match obj with
  | QList l =>
      do a <- qbound (length l) lo 0;
      do b <- qbound (length l) hi (Z.of_nat (length l));
      if (0 <=? a) && (a <=? b) then Ok (QList (qcut l a b)) else Err EUnsupported
  | QStr x =>
      if existsb is_cont x then Err EUnsupported else
      do a <- qbound (length x) lo 0;
      do b <- qbound (length x) hi (Z.of_nat (length x));
      if (0 <=? a) && (a <=? b) then Ok (QStr (qcut x a b)) else Err EUnsupported
  | _ => Err EUnsupported
  end.

(* fmt % args for the verbs %s %d %% (fmt_go of Model/C16_Eval.v on tree values) *)
Fixpoint qfmt (f : str) (args : list qval) : res str :=
  match f with
  | [] => match args with [] => Ok [] | _ => Err EUnsupported end
  | 37%N :: 37%N :: r => do x <- qfmt r args; Ok (37%N :: x)
  | 37%N :: 115%N :: r =>
      match args with
      | a :: ar => match qstr a with
                   | Some x => do y <- qfmt r ar; Ok (x ++ y)
                   | None => Err EUnsupported
                   end
      | [] => Err EUnsupported
      end
  | 37%N :: 100%N :: r =>
      match args with
      | QInt z :: ar => do y <- qfmt r ar; Ok (z_to_str z ++ y)
      | _ => Err EUnsupported
      end
  | 37%N :: _ => Err EUnsupported
  | c :: r => do x <- qfmt r args; Ok (c :: x)
  end.

Definition qas_list (v : qval) : res (list qval) := match v with QList l => Ok l | _ => Err EType end.

(* ---------------------------------------------------------------- the native builtins on tree values *)
Definition qnative (fuel : nat) (n : str) (args : list qval) : res qval :=
  let arg (i : nat) := nth i args QNone in
  if str_eqb n (s "len") then
    match arg 0%nat with
    | QList l => Ok (QInt (Z.of_nat (length l)))
    | QDict l => Ok (QInt (Z.of_nat (length l)))
    | QStr x => Ok (QInt (Z.of_nat (rune_count x)))
    | _ => Err EType
    end
  else if str_eqb n (s "str") then
    match fuel with
    | O => OutOfFuel
    | S _ => match qstr (arg 0%nat) with Some x => Ok (QStr x) | None => Err EUnsupported end   (* containers: Go formatting *)
    end
  else if str_eqb n (s "bool") then Ok (QBool (qtruthy (arg 0%nat)))
  else if str_eqb n (s "enumerate") then
    match arg 0%nat with
    | QList l => Ok (QList (map QList (map (fun iv => [QInt (Z.of_nat (fst iv)); snd iv]) (combine (seq 0%nat (length l)) l))))
    | _ => Err EType
    end
  else if str_eqb n (s "zip") then
    do ls <- mapR qas_list args;
    match ls with
    | [] => Err EType
    | l0 :: _ =>
        if forallb (fun l => Nat.eqb (length l) (length l0)) ls
        then Ok (QList (map QList (map (fun i => map (fun l => nth i l QNone) ls) (seq 0%nat (length l0)))))
        else Err EUnsupported        (* asp raises, CPython truncates *)
    end
  else if str_eqb n (s "any") then match arg 0%nat with QList l => Ok (QBool (existsb qtruthy l)) | _ => Err EType end
  else if str_eqb n (s "all") then match arg 0%nat with QList l => Ok (QBool (forallb qtruthy l)) | _ => Err EType end
  else if str_eqb n (s "reversed") then match arg 0%nat with QList l => Ok (QList (rev l)) | _ => Err EType end
  else if str_eqb n (s "sorted") then
    match arg 0%nat with
    | QList l =>
        match arg 1%nat, arg 2%nat with
        | QNone, QBool rv =>
            if negb (forallb q_is_int l || forallb q_is_str l) then Err EUnsupported else
            do r <- qinsertion_sort (fun x y => match fuel with O => OutOfFuel | S _ => qcmp (if rv then C16_Syntax.Gt else C16_Syntax.Lt) x y end) l;
            Ok (QList r)
        | _, _ => Err EUnsupported
        end
    | _ => Err EType
    end
  else if str_eqb n (s "min") || str_eqb n (s "max") then
    match arg 0%nat with
    | QList l =>
        match arg 1%nat with
        | QNone =>
            match l with
            | [] => Err EType
            | x :: r =>
                qminmax (fun y cur => match fuel with O => OutOfFuel | S _ => qcmp (if str_eqb n (s "min") then C16_Syntax.Lt else C16_Syntax.Gt) y cur end) r x
            end
        | _ => Err EUnsupported
        end
    | _ => Err EType
    end
  else Err EUnsupported.

Definition qnative_method (n : str) (args : list qval) : res qval :=
  let arg (i : nat) := nth i args QNone in
  match arg 0%nat with
  | QStr self =>
      if str_eqb n (s "join") then
        match arg 1%nat with
        | QList l => do xs <- mapR (fun v => match v with QStr x => Ok x | _ => Err EType end) l; Ok (QStr (str_join self xs))
        | _ => Err EType
        end
      else if str_eqb n (s "split") then
        match arg 1%nat with
        | QStr [] => Err EUnsupported
        | QStr sep => Ok (QList (map QStr (str_split sep self)))
        | _ => Err EType
        end
      else if str_eqb n (s "startswith") then match arg 1%nat with QStr p => Ok (QBool (str_prefix p self)) | _ => Err EType end
      else if str_eqb n (s "endswith") then match arg 1%nat with QStr p => Ok (QBool (str_suffix p self)) | _ => Err EType end
      else if str_eqb n (s "upper") then
        do r <- ascii_map (fun b => if N.leb 97 b && N.leb b 122 then (b - 32)%N else b) self; Ok (QStr r)
      else if str_eqb n (s "lower") then
        do r <- ascii_map (fun b => if N.leb 65 b && N.leb b 90 then (b + 32)%N else b) self; Ok (QStr r)
      else Err EUnsupported
  | QDict kvs =>
      if str_eqb n (s "get") then
        match arg 1%nat with
        | QStr k => Ok (match qenv_get k kvs with Some v => v | None => arg 2%nat end)
        | _ => Err EType
        end
      else if str_eqb n (s "keys") then Ok (QList (map (fun kv => QStr (fst kv)) kvs))
      else if str_eqb n (s "values") then Ok (QList (map (@snd _ _) kvs))
      else if str_eqb n (s "items") then Ok (QList (map QList (map (fun kv => [QStr (fst kv); snd kv]) kvs)))
      else Err EUnsupported
  | _ => Err EUnsupported
  end.

Fixpoint qmapR {A B} (g : A -> res B) (l : list A) : res (list B) :=
  match l with
  | [] => Ok []
  | x :: r => do y <- g x; do ys <- qmapR g r; Ok (y :: ys)
  end.

Fixpoint qfind_slot (k : str) (sg : list (str * N * option qval)) (j : nat) : option nat :=
  match sg with
  | [] => None
  | (a, _, _) :: sr => if str_eqb a k then Some j else qfind_slot k sr (S j)
  end.

(* the keyword arguments of a builtin that CPython knows under the same name *)
Definition qkwok (n k : str) : bool := str_eqb n (s "sorted") && str_eqb k (s "reverse").

(* callNative.  kw: a keyword argument has been seen.  Refused: a keyword the whitelist kwok does not have (CPython names the
   parameters of its builtins differently or takes them by position only), a positional argument after a keyword one (not
   Python), a keyword for a slot that is already filled (asp overwrites, CPython raises) *)
Definition qnative_loop (ev : expr -> res qval) (kwok : str -> bool) (sg : list (str * N * option qval)) (varargs : bool)
  : list (option str * expr) -> nat -> bool -> list (option qval) -> list qval -> res (list (option qval) * list qval) :=
  fix go (l : list (option str * expr)) (i : nat) (kw : bool) (slots : list (option qval)) (extra : list qval) :=
    match l with
    | [] => Ok (slots, extra)
    | (None, e) :: r =>
        if kw then Err EUnsupported else
        if Nat.leb (length sg) i then
          (if varargs then do v <- ev e; go r (S i) false slots (extra ++ [v]) else Err EType)
        else
          let '(_, t, def) := nth i sg ([], 0%N, None) in
          do v <- ev e; do v' <- qvalidate t def v;
          go r (S i) false (list_set i (Some v') slots) extra
    | (Some k, e) :: r =>
        if negb (kwok k) then Err EUnsupported else
        match qfind_slot k sg 0%nat with
        | None => Err EType
        | Some j =>
            match nth j slots None with
            | Some _ => Err EUnsupported
            | None =>
                let '(_, t, def) := nth j sg ([], 0%N, None) in
                do v <- ev e; do v' <- qvalidate t def v;
                go r (S i) true (list_set j (Some v') slots) extra
            end
        end
    end.

Definition qfill_defaults (filled : list (option qval)) (sg : list (str * N * option qval)) : res (list qval) :=
  mapR (fun sv => match fst sv with
                  | Some v => Ok v
                  | None => match snd sv with (_, _, Some dv) => Ok dv | _ => Err EType end
                  end) (combine filled sg).

(* the argument list callNative hands to the native *)
Definition qnative_args (ev : expr -> res qval) (n : str) (args : list (option str * expr)) : res (list qval) :=
  match native_sig n with
  | None => Err EUnsupported
  | Some (sg0, varargs) =>
      let sg := qsig_of sg0 in
      do '(filled, extra) <- qnative_loop ev (qkwok n) sg varargs args 0%nat false (map (fun _ => @None qval) sg) [];
      do vals <- qfill_defaults filled sg;
      Ok (vals ++ extra)
  end.

Definition qmeth_loop (ev : expr -> res qval) : list expr -> list (str * N * option qval) -> res (list qval) :=
  fix go (l : list expr) (sg0 : list (str * N * option qval)) : res (list qval) :=
    match sg0 with
    | [] => Ok []
    | (_, t, def) :: sr =>
        match l with
        | e :: r => do v <- ev e; do v' <- qvalidate t def v; do vs <- go r sr; Ok (v' :: vs)
        | [] => match def with
                | Some dv => do vs <- go [] sr; Ok (dv :: vs)
                | None => Err EType
                end
        end
    end.

Definition qcall_method (ev : expr -> res qval) (obj : qval) (m : str) (args : list expr) : res qval :=
  let call_m (table : list str) :=
    if existsb (str_eqb m) table then
      match method_sig m with
      | None => Err EUnsupported
      | Some sg =>
          if Nat.ltb (length sg) (S (length args)) then Err EType else
          do vals <- qmeth_loop ev args (tl (qsig_of sg));
          qnative_method m (obj :: vals)
      end
    else Err EUnsupported in
  match obj with
  | QStr _ => call_m str_methods
  | QDict kvs => match qenv_get m kvs with Some _ => Err EUnsupported | None => call_m dict_methods end
  | _ => Err EUnsupported
  end.

(* pyFunc.Call, first half: the arguments bound to the formals.  Refused: a positional argument after a keyword
   argument, and an argument bound twice (CPython raises) *)
Definition qbind_args (ev : expr -> res qval) (formals : list (str * qdefault))
  : list (option str * expr) -> nat -> bool -> qenv -> res qenv :=
  fix go (l : list (option str * expr)) (i : nat) (kw : bool) (acc : qenv) : res qenv :=
    match l with
    | [] => Ok acc
    | (None, e) :: r =>
        if kw then Err EUnsupported else
        if Nat.leb (length formals) i then Err EType else
        let a := fst (nth i formals ([], QDNo)) in
        match qenv_get a acc with
        | Some _ => Err EUnsupported
        | None => do v <- ev e; go r (S i) false (qenv_set a v acc)
        end
    | (Some k, e) :: r =>
        if existsb (fun a => str_eqb (fst a) k) formals then
          match qenv_get k acc with
          | Some _ => Err EUnsupported
          | None => do v <- ev e; go r (S i) true (qenv_set k v acc)
          end
        else Err EType
    end.

Fixpoint qfill_formals (l : list (str * qdefault)) (acc : qenv) : res qenv :=
  match l with
  | [] => Ok acc
  | (a, df) :: r =>
      match qenv_get a acc with
      | Some _ => qfill_formals r acc
      | None => match df with
                | QDNo => Err EType
                | QDConst v => qfill_formals r (qenv_set a v acc)
                end
      end
  end.

(* scope.unpackNames *)
Definition qunpack (names : list str) (v : qval) (ps : qstate) : res qstate :=
  match names with
  | [n] => Ok (qset_var n v ps)
  | _ =>
      match v with
      | QList items =>
          if Nat.eqb (length items) (length names)
          then Ok (fold_left (fun acc nv => qset_var (fst nv) (snd nv) acc) (combine names items) ps)
          else Err EType
      | _ => Err EType
      end
  end.

(* a default the fragment accepts: a scalar literal *)
Definition qdefault_of (o : option expr) : option qdefault :=
  match o with
  | None => Some QDNo
  | Some (Ex (XInt z) [] None) => Some (QDConst (QInt z))
  | Some (Ex (XStr x) [] None) => Some (QDConst (QStr x))
  | Some (Ex XTrue [] None) => Some (QDConst (QBool true))
  | Some (Ex XFalse [] None) => Some (QDConst (QBool false))
  | Some (Ex XNone [] None) => Some (QDConst QNone)
  | _ => None
  end.

Fixpoint qformals_of (args : list (str * option expr)) : option (list (str * qdefault)) :=
  match args with
  | [] => Some []
  | (a, o) :: r => match qdefault_of o, qformals_of r with
                   | Some df, Some fr => Some ((a, df) :: fr)
                   | _, _ => None
                   end
  end.

Definition is_range_call (it : expr) : option (list (option str * expr)) :=
  match it with
  | Ex (XCall n args) [] None => if str_eqb n (s "range") then Some args else None
  | _ => None
  end.

(* scope.callObject on a user function / on a native builtin, one level of fuel *)
Definition qcall_user (ev : nat -> expr -> qstate -> res qval) (run : nat -> nat -> qenv -> qstate -> res qval)
  (f : nat) (id : nat) (args : list (option str * expr)) (ps : qstate) : res qval :=
  match f with
  | O => OutOfFuel
  | S f' =>
      do bound <- qbind_args (fun e => ev f' e ps) (qf_args (nth id (qfs ps) (QFn [] [] []))) args 0%nat false [];
      run f' id bound ps
  end.
Definition qcall_builtin (ev : nat -> expr -> qstate -> res qval) (f : nat) (n : str) (args : list (option str * expr)) (ps : qstate) : res qval :=
  match f with
  | O => OutOfFuel
  | S f' => do vals <- qnative_args (fun e => ev f' e ps) n args; qnative f' n vals
  end.

Inductive qsres := QRNone | QRRet (v : qval) | QRBreak | QRContinue.

Definition qfn_default : qfunc := QFn [] [] [].

Section Ref2.
Variable iop : binop -> Z -> Z -> ires.     (* the integer operators *)
Variable ineg : Z -> option Z.              (* unary minus *)

Definition qof_ires (r : ires) : res qval :=
  match r with
  | IOk z => Ok (QInt z) | IBool b => Ok (QBool b)
  | IErr => Err EType | IUnsup => Err EUnsupported | IFloat => Err EFloat
  end.

Definition qapply_bin (fuel : nat) (o : binop) (a b : qval) : res qval :=
  match fuel with
  | O => OutOfFuel
  | S _ =>
      match o with
      | C16_Syntax.Eq => match qeq a b with Some e => Ok (QBool e) | None => Err EUnsupported end
      | Ne => match qeq a b with Some e => Ok (QBool (negb e)) | None => Err EUnsupported end
      | In | NotIn =>
          let neg := match o with NotIn => true | _ => false end in
          match a, b with
          | QStr x, QStr y => Ok (QBool (xorb neg (str_contains x y)))
          | (QInt _ | QStr _ | QBool _ | QNone), QList l => do r <- qin_list a l; Ok (QBool (xorb neg r))
          | QStr k, QDict kvs => Ok (QBool (xorb neg (match qenv_get k kvs with Some _ => true | None => false end)))
          | _, _ => Err EUnsupported
          end
      | _ =>
          match a, b with
          | QInt x, QInt y => if is_int_arith o then qof_ires (iop o x y) else Err EUnsupported
          | QStr x, QStr y =>
              match o with
              | Add => Ok (QStr (x ++ y))
              | C16_Syntax.Lt | C16_Syntax.Gt | Le | Ge => Ok (QBool (cmp_by o (str_cmp x y)))
              | Mod => do r <- qfmt x [b]; Ok (QStr r)
              | _ => Err EUnsupported
              end
          | QStr x, QInt _ =>
              match o with
              | Mod => do r <- qfmt x [b]; Ok (QStr r)
              | _ => Err EUnsupported
              end
          | QList x, QList y =>
              match o with
              | Add => Ok (QList (x ++ y))
              | _ => Err EUnsupported
              end
          | QDict x, QDict y =>
              match o with
              | Union =>
                  (* the keys of x, then the new keys of y: asp enumerates the result sorted, CPython in this order *)
                  let m := fold_left (fun acc kv => qenv_set (fst kv) (snd kv) acc) y x in
                  if ssorted (map (@fst _ _) m) then Ok (QDict m) else Err EUnsupported
              | _ => Err EUnsupported
              end
          | _, _ => Err EUnsupported
          end
      end
  end.

Definition qapply_un (u : unop) (v : qval) : res qval :=
  match u with
  | Not => Ok (QBool (negb (qtruthy v)))
  | Neg => match v with
           | QInt z => match ineg z with Some z' => Ok (QInt z') | None => Err EUnsupported end
           | _ => Err EUnsupported
           end
  end.

Fixpoint qteval (ev : vexpr -> res qval) (fuel : nat) (t : tree vexpr qval) : res qval :=
  match t with
  | TLeaf x => ev x
  | TVal v => Ok v
  | TUn u t1 => do v <- qteval ev fuel t1; qapply_un u v
  | TBin o l r =>
      do a <- qteval ev fuel l;
      match o with
      | And | Or => if Bool.eqb (qtruthy a) (binop_eqb o And) then qteval ev fuel r else Ok a
      | _ => do b <- qteval ev fuel r; qapply_bin fuel o a b
      end
  end.

(* the iterable of a for loop / comprehension: a list value, or a call of the builtin range written in place.
   Returns the items and asp's capacity hint for a comprehension (Len() of the iterable). *)
Definition qiter (ev : nat -> expr -> qstate -> res qval) (fuel : nat) (it : expr) (ps : qstate) : res (list qval * Z) :=
  match is_range_call it, qlookup (s "range") ps with
  | Some args, None =>
      match fuel with
      | S (S (S f3)) =>
          do vals <- qnative_args (fun e => ev f3 e ps) (s "range") args;
          match vals with
          | [QInt a; QInt b; QInt c] =>
              do items <- qrange_items a b c; Ok (items, range_len a b c)
          | [QInt a; QNone; QInt c] =>
              do items <- qrange_items 0 a c; Ok (items, range_len 0 a c)
          | _ => Err EType
          end
      | _ => OutOfFuel
      end
  | _, _ => do p <- ev fuel it ps; match p with QList l => Ok (l, Z.of_nat (length l)) | _ => Err EUnsupported end
  end.

Definition qcomp_loop (ev : expr -> qstate -> res qval) (names : list str) (e : expr) (cond : option expr)
  : list qval -> list qval -> qstate -> res (list qval) :=
  fix go (l : list qval) (acc : list qval) (ps0 : qstate) : res (list qval) :=
    match l with
    | [] => Ok (rev acc)
    | li :: r =>
        do ps' <- qunpack names li ps0;
        do keep <- match cond with
                   | None => Ok true
                   | Some c => do cv <- ev c ps'; Ok (qtruthy cv)
                   end;
        if keep then do v <- ev e ps'; go r (v :: acc) ps' else go r acc ps'
    end.

Fixpoint qeval_expr (fuel : nat) (e : expr) (ps : qstate) {struct fuel} : res qval :=
  match fuel with
  | O => OutOfFuel
  | S f =>
      match e with
      | Ex v ops iff =>
          let main :=
            do obj <- qeval_vexpr f v ps;
            match ops with
            | [] => Ok obj
            | _ => if ops_safe (items_of ops)
                   then qteval (fun x => qeval_vexpr f x ps) f (asp_tree (TVal obj) (items_of ops))
                   else Err EUnsupported
            end in
          match iff with
          | Some (c, e2) => do cv <- qeval_expr f c ps; if qtruthy cv then main else qeval_expr f e2 ps
          | None => main
          end
      end
  end

with qeval_vexpr (fuel : nat) (x : vexpr) (ps : qstate) {struct fuel} : res qval :=
  match fuel with
  | O => OutOfFuel
  | S f =>
      match x with
      | XInt z => Ok (QInt z)
      | XStr x0 => Ok (QStr x0)
      | XTrue => Ok (QBool true)
      | XFalse => Ok (QBool false)
      | XNone => Ok QNone
      | XIdent n => match qlookup n ps with Some v => Ok v | None => Err EType end
      | XParen e => qeval_expr f e ps
      | XList es => do vs <- qmapR (fun e => qeval_expr f e ps) es; Ok (QList vs)
      | XDict kvs =>
          do pairs <- qmapR (fun kv => do k <- qeval_expr f (fst kv) ps;
                                       do v <- qeval_expr f (snd kv) ps;
                                       match k with QStr ks => Ok (ks, v) | _ => Err EType end) kvs;
          let m := fold_left (fun acc kv => qenv_set (fst kv) (snd kv) acc) pairs [] in
          if ssorted (map (@fst _ _) m) then Ok (QDict m) else Err EUnsupported   (* asp enumerates sorted, CPython in insertion order *)
      | XComp e names it cond =>
          do '(items, hint) <- qiter qeval_expr f it ps;
          if hint <? 0 then Err EUnsupported else
          do out <- qcomp_loop (qeval_expr f) names e cond items [] (QS (qg ps) ([] :: ql ps) (qfs ps));
          if Nat.ltb (Z.to_nat hint) (length out) then Err EUnsupported else Ok (QList out)
      | XIndex b i =>
          do obj <- qeval_vexpr f b ps;
          do idx <- qeval_expr f i ps;
          qindex obj idx
      | XSlice b lo hi =>
          do obj <- qeval_vexpr f b ps;
          do lov <- match lo with None => Ok None | Some e => do v <- qeval_expr f e ps; Ok (Some v) end;
          do hiv <- match hi with None => Ok None | Some e => do v <- qeval_expr f e ps; Ok (Some v) end;
          qslice obj lov hiv
      | XCall n args =>
          match qlookup n ps with
          | Some (QFunc id) => qcall_user qeval_expr qrun_func f id args ps
          | Some _ => Err EType
          | None => if existsb (str_eqb n) builtin_names then qcall_builtin qeval_expr f n args ps else Err EType
          end
      | XMeth b m args =>
          do obj <- qeval_vexpr f b ps;
          qcall_method (fun e => qeval_expr f e ps) obj m args
      | _ => Err EUnsupported
      end
  end

(* pyFunc.Call, second half *)
with qrun_func (fuel : nat) (id : nat) (bound : qenv) (ps : qstate) {struct fuel} : res qval :=
  match fuel with
  | O => OutOfFuel
  | S f =>
      let fd := nth id (qfs ps) qfn_default in
      do full <- qfill_formals (qf_args fd) bound;
      do '(r, _) <- qexec_block f (qf_body fd) (QS (qg ps) [full] (qfs ps));
      match r with
      | QRRet v => Ok v
      | _ => Ok QNone
      end
  end

with qexec_block (fuel : nat) (ss : list stmt) (ps : qstate) {struct fuel} : res (qsres * qstate) :=
  match fuel with
  | O => OutOfFuel
  | S f =>
      match ss with
      | [] => Ok (QRNone, ps)
      | s0 :: r =>
          do '(res0, ps1) <- qexec_stmt f s0 ps;
          match res0 with
          | QRNone => qexec_block f r ps1
          | _ => Ok (res0, ps1)
          end
      end
  end

with qexec_stmt (fuel : nat) (s0 : stmt) (ps : qstate) {struct fuel} : res (qsres * qstate) :=
  match fuel with
  | O => OutOfFuel
  | S f =>
      match s0 with
      | SPass => Ok (QRNone, ps)
      | SBreak => Ok (QRBreak, ps)
      | SContinue => Ok (QRContinue, ps)
      | SAssign n e => do v <- qeval_expr f e ps; Ok (QRNone, qset_var n v ps)
      | SAug n e =>
          match qlookup n ps with
          | None => Err EType
          | Some old =>
              do v <- qeval_expr f e ps;
              match old with
              | QList _ => Err EUnsupported        (* += on a list: rebinding in asp, in-place in CPython *)
              | _ => do r <- qapply_bin f Add old v; Ok (QRNone, qset_var n r ps)
              end
          end
      | SUnpack names e =>
          do v <- qeval_expr f e ps;
          match names with
          | [] | [_] => Err EUnsupported
          | _ => do ps1 <- qunpack names v ps; Ok (QRNone, ps1)
          end
      | SAssert e => do v <- qeval_expr f e ps; if qtruthy v then Ok (QRNone, ps) else Err EType
      | SReturn None => Ok (QRRet QNone, ps)
      | SReturn (Some e) => do v <- qeval_expr f e ps; Ok (QRRet v, ps)
      | SIf c body elifs els =>
          do cv <- qeval_expr f c ps;
          if qtruthy cv then qexec_block f body ps
          else (fix go (l : list (expr * list stmt)) : res (qsres * qstate) :=
                  match l with
                  | [] => qexec_block f els ps
                  | (c1, b1) :: r => do v1 <- qeval_expr f c1 ps;
                                     if qtruthy v1 then qexec_block f b1 ps else go r
                  end) elifs
      | SFor names it body =>
          do '(items, _) <- qiter qeval_expr f it ps;
          (fix go (l : list qval) (ps0 : qstate) : res (qsres * qstate) :=
             match l with
             | [] => Ok (QRNone, ps0)
             | li :: r =>
                 do ps1 <- qunpack names li ps0;
                 do '(r0, ps'') <- qexec_block f body ps1;
                 match r0 with
                 | QRBreak => Ok (QRNone, ps'')
                 | QRRet v => Ok (QRRet v, ps'')
                 | _ => go r ps''
                 end
             end) items ps
      | SDef n args body =>
          (* only at the top level of the file: a function value never captures a local scope *)
          match ql ps, qformals_of args with
          | [], Some formals =>
              Ok (QRNone, qset_var n (QFunc (length (qfs ps))) (QS (qg ps) [] (qfs ps ++ [QFn n formals body])))
          | _, _ => Err EUnsupported
          end
      | SCall n args =>
          match qlookup n ps with
          | Some (QFunc id) => do _ <- qcall_user qeval_expr qrun_func f id args ps; Ok (QRNone, ps)
          | Some _ => Err EType
          | None => Err EUnsupported
          end
      | _ => Err EUnsupported
      end
  end.

Fixpoint qexec_top (fuel : nat) (ss : list stmt) (ps : qstate) : res qstate :=
  match ss with
  | [] => Ok ps
  | s0 :: r =>
      match qexec_stmt fuel s0 ps with
      | Ok (QRNone, ps1) => qexec_top fuel r ps1
      | Ok (_, ps1) => Ok ps1
      | Err k => Err k
      | OutOfFuel => OutOfFuel
      end
  end.

End Ref2.

(* the reference run of a program with the CHECKED integer operators of Model/C16_Pure.v *)
Definition pure2_run (fuel : nat) (p : prog) : res qstate := qexec_top checked_op checked_neg fuel p (QS [] [] []).

(* ---------------------------------------------------------------- rendering *)
Fixpoint qrender (fuel : nat) (fns : list qfunc) (p : qval) : obs :=
  match fuel with
  | O => OOther
  | S f =>
      match p with
      | QInt z => OInt z
      | QStr x => OStr x
      | QBool b => OBool b
      | QNone => ONone
      | QList l => OList false 0%nat (map (qrender f fns) l)
      | QDict kvs => ODict false (map (fun kv => (fst kv, qrender f fns (snd kv))) kvs)
      | QFunc i => OFunc (qf_name (nth i fns qfn_default))
      end
  end.

Definition pure2_obs (ps : qstate) : list (str * obs) :=
  gsort (map (fun kv => (fst kv, qrender 64%nat (qfs ps) (snd kv))) (qg ps)).

(* an observation without the spare capacity of its lists (which CPython does not have) *)
Fixpoint ostrip (o : obs) : obs :=
  match o with
  | OList fr _ l => OList fr 0%nat (map ostrip l)
  | ODict fr kvs => ODict fr (map (fun kv => (fst kv, ostrip (snd kv))) kvs)
  | _ => o
  end.
Definition ostrip_env (l : list (str * obs)) : list (str * obs) := map (fun kv => (fst kv, ostrip (snd kv))) l.
Definition ostrip_outcome (o : outcome) : outcome :=
  match o with OGlobals a f => OGlobals (ostrip_env a) (ostrip_env f) | _ => o end.

(* ---------------------------------------------------------------- the syntactic fragment *)
Definition pure2_builtins : list str :=
  [s "len"; s "str"; s "bool"; s "any"; s "all"; s "reversed"; s "sorted"; s "min"; s "max"; s "enumerate"; s "zip"].
Definition pure2_methods : list str :=
  [s "join"; s "split"; s "startswith"; s "endswith"; s "upper"; s "lower"; s "get"; s "keys"; s "values"; s "items"].

Definition positional (args : list (option str * expr)) : bool :=
  forallb (fun a => match fst a with None => true | Some _ => false end) args.

Fixpoint pure2_expr (n : nat) (e : expr) : bool :=
  match n with
  | O => false
  | S k =>
      match e with
      | Ex v ops iff =>
          pure2_vexpr k v
          && forallb (fun i => match i with
                               | OBin o x => pure2_vexpr k x
                                             && negb (match o with Is | IsNot | Div => true | _ => false end)
                               | OUn _ => true
                               end) ops
          && ops_safe (items_of ops)
          && match iff with None => true | Some (c, e2) => pure2_expr k c && pure2_expr k e2 end
      end
  end
with pure2_vexpr (n : nat) (x : vexpr) : bool :=
  match n with
  | O => false
  | S k =>
      let iter (it : expr) :=
        match is_range_call it with
        | Some args => positional args && forallb (fun a => pure2_expr k (snd a)) args
        | None => pure2_expr k it
        end in
      match x with
      | XInt _ | XStr _ | XTrue | XFalse | XNone => true
      | XIdent m => plain_name m
      | XParen e => pure2_expr k e
      | XList es => forallb (pure2_expr k) es
      | XDict kvs => forallb (fun kv => pure2_expr k (fst kv) && pure2_expr k (snd kv)) kvs
      | XComp e names it cond =>
          forallb plain_name names && negb (Nat.eqb (length names) 0) && pure2_expr k e && iter it
          && match cond with None => true | Some c => pure2_expr k c end
      | XIndex b i => pure2_vexpr k b && pure2_expr k i
      | XSlice b lo hi =>
          pure2_vexpr k b && match lo with None => true | Some e => pure2_expr k e end
          && match hi with None => true | Some e => pure2_expr k e end
      | XCall m args =>
          forallb (fun a => pure2_expr k (snd a)) args
          && (if plain_name m then true
              else existsb (str_eqb m) pure2_builtins
                   && forallb (fun a => match fst a with None => true | Some k => qkwok m k end) args)
      | XMeth b m args => pure2_vexpr k b && existsb (str_eqb m) pure2_methods && forallb (pure2_expr k) args
      | _ => false
      end
  end.

Definition pure2_iter (k : nat) (it : expr) : bool :=
  match is_range_call it with
  | Some args => positional args && forallb (fun a => pure2_expr k (snd a)) args
  | None => pure2_expr k it
  end.

(* inloop: break / continue allowed; infn: inside a function body (return allowed, def not) *)
Fixpoint pure2_stmt (n : nat) (inloop infn : bool) (st : stmt) : bool :=
  match n with
  | O => false
  | S k =>
      match st with
      | SPass => true
      | SBreak | SContinue => inloop
      | SAssign m e | SAug m e => plain_name m && pure2_expr k e
      | SAssert e => pure2_expr k e
      | SUnpack names e => forallb plain_name names && Nat.leb 2 (length names) && pure2_expr k e
      | SReturn None => infn
      | SReturn (Some e) => infn && pure2_expr k e
      | SIf c body elifs els =>
          pure2_expr k c && forallb (pure2_stmt k inloop infn) body
          && forallb (fun cb => pure2_expr k (fst cb) && forallb (pure2_stmt k inloop infn) (snd cb)) elifs
          && forallb (pure2_stmt k inloop infn) els
      | SFor names it body =>
          forallb plain_name names && negb (Nat.eqb (length names) 0) && pure2_iter k it && forallb (pure2_stmt k true infn) body
      | SDef m args body =>
          negb infn && plain_name m
          && forallb (fun a => plain_name (fst a) && match qdefault_of (snd a) with Some _ => true | None => false end) args
          && forallb (pure2_stmt k false true) body
      | SCall m args => plain_name m && forallb (fun a => pure2_expr k (snd a)) args
      | _ => false
      end
  end.

Definition in_pure2_subset (p : prog) : bool := forallb (pure2_stmt PURE_DEPTH false false) p.

(* ---------------------------------------------------------------- correspondence cases of the C16 harness *)
(* P2Base: a case of Model/C16_Sort.v.  P2Pure: a program with the harness' verdict `flag` on membership in the
   enlarged fragment (computed on the Go AST), whether the real interpreter ran it without error, whether python3 then
   printed the same globals, and the globals the real interpreter printed. *)
Inductive case :=
| P2Base (c : C16_Sort.case)
| P2Pure (flag : bool) (p : prog) (asp_ok agree : bool) (globals : list (str * obs))
(* P2Must: a FIXED program of the harness (stream pure3: one per construct of the third deepening, and the boundary cases of
   each) on which the reference run has to succeed - so that every run exercises every construct under the hypothesis of the
   theorem against the real interpreter and python3 *)
| P2Must (p : prog) (asp_ok agree : bool) (globals : list (str * obs)).

Definition check (c : case) : bool :=
  match c with
  | P2Base c0 => C16_Sort.check c0
  | P2Pure flag p asp_ok agree globals =>
      Bool.eqb (in_pure2_subset p) flag
      && (if flag then
            match pure2_run FUEL p with
            | Ok ps =>
                (* the theorem's hypotheses hold on the model: the real runs must agree, with exactly these globals *)
                asp_ok && agree && kvobs_eqb obs_plain_eqb (drop_funcs (pure2_obs ps)) (drop_funcs globals)
            | _ => true
            end
          else true)
  | P2Must p asp_ok agree globals =>
      in_pure2_subset p
      && match pure2_run FUEL p with
         | Ok ps => asp_ok && agree && kvobs_eqb obs_plain_eqb (drop_funcs (pure2_obs ps)) (drop_funcs globals)
         | _ => false
         end
  end.
