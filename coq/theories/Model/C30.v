(* C30 - timed-out actions are killed with all their children.
   Executable model of ExecWithTimeout / KillProcess / killProcess / sendSignal
   (src/process/process.go) and of the process-group set-up of ExecCommand
   (src/process/exec_linux.go), as a timed labelled transition system over an abstract process
   table.  The signals, the two waits, the kill target (group or pid) and Setpgid come from
   Gen/KillTimings.v, regenerated from the source on every run.  No proofs here.

   Time is in milliseconds from the creation of the timeout context.  A schedule is a list of
   events; `step` decides whether an event is possible in a state.  Events of the controller
   (the Go code) and of the environment (the command's processes, the kernel, the passage of
   time) interleave freely. *)
From PlzV Require Import Base.Harness Gen.KillTimings Model.C30_deadline.
Local Open Scope N_scope.

Definition sigterm : N := 15.
Definition sigkill : N := 9.

(* killProcess: success := sendSignal(SIG1, D1); if !sendSignal(SIG2, D2) && !success {log} *)
Definition sig1 : N := fst (nth 0 kill_protocol (0, 0)).
Definition d1 : N := snd (nth 0 kill_protocol (0, 0)).
Definition sig2 : N := fst (nth 1 kill_protocol (0, 0)).
Definition d2 : N := snd (nth 1 kill_protocol (0, 0)).

(* ---- the process table ---- *)
Record proc := mkProc {
  in_group : bool;     (* member of the process group -pid that ExecCommand created (Setpgid) *)
  alive : bool;        (* not yet exited; a process that was sent SIGKILL stays alive until the kernel ends it (EExit) *)
  ign_term : bool;     (* SIGTERM ignored or handled without exiting *)
  holds_pipe : bool;   (* has the write end of the stdout/stderr pipes of the command open *)
  got_term : bool;     (* has been sent SIGTERM by the controller *)
  got_kill : bool      (* has been sent SIGKILL by the controller *)
}.

(* ---- ExecCommand (exec_linux.go): which *exec.Cmd the process-group attribute ends up on ----
   Gen.exec_command_prog is the body of ExecCommand, statement by statement; it is run here for
   every configuration of the executor and of the action. *)
Inductive ns_policy := NsAlways | NsNever | NsSandbox.
Record mode := mkMode {
  m_policy : ns_policy;   (* e.namespace *)
  m_builtin : bool;       (* e.usePleaseSandbox: re-exec `plz sandbox`; otherwise the external e.sandboxTool *)
  m_sandboxed : bool      (* sandbox != NoSandbox for this action *)
}.
Definition no_sandbox : mode := mkMode NsNever false false.

(* shouldNamespace := e.namespace == NamespaceAlways || ((e.namespace == NamespaceSandbox || e.usePleaseSandbox) && sandbox != NoSandbox)
   (gotrans checks that the source still says exactly this) *)
Definition should_namespace (m : mode) : bool :=
  match m_policy m with NsAlways => true | _ => false end
  || ((match m_policy m with NsSandbox => true | _ => false end || m_builtin m) && m_sandboxed m).

(* the value of the variable cmd *)
Record cmdobj := mkCmd {
  attr_set : bool;    (* cmd.SysProcAttr != nil *)
  group_set : bool;   (* cmd.SysProcAttr.Setpgid *)
  crashed : bool;     (* a nil cmd.SysProcAttr was dereferenced *)
  returned : bool     (* return cmd was reached *)
}.

Definition cond_holds (m : mode) (c : econd) : bool :=
  match c with CSandboxed => m_sandboxed m | CBuiltin => m_builtin m | CNamespace => should_namespace m end.

Fixpoint exec_stmt (m : mode) (s : estmt) (c : cmdobj) {struct s} : cmdobj :=
  if returned c || crashed c then c else
  match s with
  | ENewCmd => mkCmd false false false false          (* a fresh command: no SysProcAttr, whatever the old one had *)
  | ESetAttr b => mkCmd true b false false
  | EModAttr => if attr_set c then c else mkCmd false (group_set c) true false
  | ESkip => c
  | EIf cd th el =>
      let fix go (l : list estmt) (c : cmdobj) : cmdobj :=
        match l with [] => c | x :: r => go r (exec_stmt m x c) end in
      if cond_holds m cd then go th c else go el c
  | EReturn => mkCmd (attr_set c) (group_set c) false true
  end.

Definition exec_command (m : mode) : cmdobj :=
  fold_left (fun c s => exec_stmt m s c) exec_command_prog (mkCmd false false false false).

(* the process cmd.Start() creates: index 0 of the table, pid = pgid when Setpgid was set on the
   command that is actually started *)
Definition start_proc (m : mode) : proc := mkProc (group_set (exec_command m)) true false true false false.

(* fork: the child inherits group, signal dispositions and descriptors; pending signals are not inherited *)
Definition child (x : proc) : proc := mkProc (in_group x) true (ign_term x) (holds_pipe x) false false.

Definition mark (sg : N) (p : proc) : proc :=
  mkProc (in_group p) (alive p) (ign_term p) (holds_pipe p)
         (got_term p || (sg =? sigterm)) (got_kill p || (sg =? sigkill)).

(* ---- the operating system, as far as the protocol depends on it ---- *)
Record os_model := mkOs {
  (* kill(2): to_group = the pid argument was negated *)
  os_kill : bool -> N -> list proc -> list proc;
  (* cmd.Wait() has returned: process 0 was reaped and both pipe readers saw end of file *)
  os_wait_done : list proc -> bool
}.

Definition linux_kill (to_group : bool) (sg : N) (l : list proc) : list proc :=
  if to_group then map (fun p => if in_group p && alive p then mark sg p else p) l
  else match l with
       | [] => []
       | m :: r => (if alive m then mark sg m else m) :: r
       end.

Definition linux_wait_done (l : list proc) : bool :=
  match l with
  | [] => false
  | m :: _ => negb (alive m) && forallb (fun p => negb (alive p && holds_pipe p)) l
  end.

Definition linux : os_model := mkOs linux_kill linux_wait_done.

(* ---- the controller ---- *)
Inductive err := ErrNone (* whatever cmd.Wait() returned *) | ErrStart (* cmd.Start() failed *) | ErrDeadline (* ctx.Err() *).

Inductive pc :=
| PcInit                                  (* context created, cmd.Start() not yet returned *)
| PcSelect                                (* select { case err = <-ch: case <-ctx.Done(): } *)
| PcWait1 (armed : N)                     (* in sendSignal(SIG1, D1) after the kill, select{<-ch, <-time.After(D1)} *)
| PcWait2 (armed : N) (consumed : bool)   (* in sendSignal(SIG2, D2); consumed = the first select already received from ch *)
| PcDrain (armed : N) (consumed : bool)   (* killProcess returned; the timeout branch receives from ch once more (only if the source does) *)
| PcRet (t : N) (e : err).                (* ExecWithTimeout returned e at time t *)

(* the two facts about the channel that the source decides (Gen) *)
Definition drains : bool := timeout_branch_recv_after_kill.   (* `<-ch` after e.KillProcess(cmd) *)
Definition closes : bool := run_command_closes_chan.          (* runCommand closes ch after its send *)

(* where the controller is once killProcess has returned at time t; consumed = the value was received *)
Definition after_kill (t : N) (consumed : bool) : pc := if drains then PcDrain t consumed else PcRet t ErrDeadline.

Record state := mkState { now : N; ctl : pc; procs : list proc }.

Definition init : state := mkState 0 PcInit [].

Inductive event :=
| Tick (d : N)                 (* time passes *)
| EFork (p : nat)              (* process p forks (subshell, background job, exec of a child) *)
| EExit (p : nat)              (* process p ends: by itself, by a signal, or because the kernel finishes a SIGKILLed process *)
| EEscape (p : nat)            (* process p leaves the group: setsid() / setpgid() *)
| ESetIgn (p : nat) (b : bool) (* process p changes its SIGTERM disposition *)
| EClosePipe (p : nat)         (* process p closes/redirects its copies of the output pipes *)
| CStart (ok : bool) (m : mode) (* ExecCommand built the command for configuration m; cmd.Start() returns *)
| CChan                        (* the outer select receives from ch *)
| CDeadline                    (* the outer select receives from ctx.Done(); err = ctx.Err(); KillProcess -> first kill *)
| CRecv                        (* the select inside sendSignal receives from ch *)
| CExpire.                     (* the select inside sendSignal receives from time.After *)

Fixpoint upd (i : nat) (f : proc -> option proc) (l : list proc) : option (list proc) :=
  match l, i with
  | [], _ => None
  | x :: r, O => match f x with Some y => Some (y :: r) | None => None end
  | x :: r, S j => match upd j f r with Some r' => Some (x :: r') | None => None end
  end.

(* a process that was sent SIGKILL never runs user code again *)
Definition runs (x : proc) : bool := alive x && negb (got_kill x).

Definition f_exit (x : proc) : option proc :=
  if alive x then Some (mkProc (in_group x) false (ign_term x) (holds_pipe x) (got_term x) (got_kill x)) else None.
Definition f_escape (x : proc) : option proc :=
  if runs x && in_group x then Some (mkProc false (alive x) (ign_term x) (holds_pipe x) (got_term x) (got_kill x)) else None.
Definition f_setign (b : bool) (x : proc) : option proc :=
  if runs x then Some (mkProc (in_group x) (alive x) b (holds_pipe x) (got_term x) (got_kill x)) else None.
Definition f_close (x : proc) : option proc :=
  if runs x then Some (mkProc (in_group x) (alive x) (ign_term x) false (got_term x) (got_kill x)) else None.

Definition with_procs (st : state) (o : option (list proc)) : option state :=
  match o with Some l => Some (mkState (now st) (ctl st) l) | None => None end.

(* T = the timeout; lat = how late a timer, the start of the command, or the wake-up of the
   controller may be (timers are never early).  Time cannot pass a pending deadline by more
   than lat without the controller moving. *)
Definition step (os : os_model) (T lat : N) (st : state) (e : event) : option state :=
  match e with
  | Tick d =>
      let n := now st + d in
      let ok := match ctl st with
                | PcInit => n <=? lat
                | PcSelect => n <=? T + lat
                | PcWait1 a => n <=? a + d1 + lat
                | PcWait2 a _ => n <=? a + d2 + lat
                | PcDrain a k => if k && closes then n <=? a + lat else true   (* a receive that nothing forces to happen *)
                | PcRet _ _ => true
                end in
      if ok then Some (mkState n (ctl st) (procs st)) else None
  | EFork p =>
      match nth_error (procs st) p with
      | Some x => if runs x then Some (mkState (now st) (ctl st) (procs st ++ [child x])) else None
      | None => None
      end
  | EExit p => with_procs st (upd p f_exit (procs st))
  | EEscape p => with_procs st (upd p f_escape (procs st))
  | ESetIgn p b => with_procs st (upd p (f_setign b) (procs st))
  | EClosePipe p => with_procs st (upd p f_close (procs st))
  | CStart ok m =>
      match ctl st with
      | PcInit => if returned (exec_command m) && negb (crashed (exec_command m)) then
                    if ok then Some (mkState (now st) PcSelect [start_proc m])
                    else Some (mkState (now st) (PcRet (now st) ErrStart) [])
                  else None   (* ExecCommand panicked: outside the model (proved impossible) *)
      | _ => None
      end
  | CChan =>
      match ctl st with
      | PcSelect => if os_wait_done os (procs st) then Some (mkState (now st) (PcRet (now st) ErrNone) (procs st)) else None
      | _ => None
      end
  | CDeadline =>
      match ctl st with
      | PcSelect => if T <=? now st
                    then Some (mkState (now st) (PcWait1 (now st)) (os_kill os kill_group sig1 (procs st)))
                    else None
      | _ => None
      end
  | CRecv =>
      match ctl st with
      | PcWait1 _ => if os_wait_done os (procs st)
                     then Some (mkState (now st) (PcWait2 (now st) true) (os_kill os kill_group sig2 (procs st)))
                     else None
      | PcWait2 _ false => if os_wait_done os (procs st)
                           then Some (mkState (now st) (after_kill (now st) true) (procs st))
                           else None
      | PcWait2 _ true =>   (* nobody will ever send on ch again; a closed channel can be received from *)
          if closes then Some (mkState (now st) (after_kill (now st) true) (procs st)) else None
      | PcDrain _ false => if os_wait_done os (procs st)
                           then Some (mkState (now st) (PcRet (now st) ErrDeadline) (procs st))
                           else None
      | PcDrain _ true => if closes then Some (mkState (now st) (PcRet (now st) ErrDeadline) (procs st)) else None
      | _ => None
      end
  | CExpire =>
      match ctl st with
      | PcWait1 a => if a + d1 <=? now st
                     then Some (mkState (now st) (PcWait2 (now st) false) (os_kill os kill_group sig2 (procs st)))
                     else None
      | PcWait2 a k => if a + d2 <=? now st
                       then Some (mkState (now st) (after_kill (now st) k) (procs st))
                       else None
      | _ => None
      end
  end.

Fixpoint run (os : os_model) (T lat : N) (st : state) (tr : list event) : option state :=
  match tr with
  | [] => Some st
  | e :: r => match step os T lat st e with Some st' => run os T lat st' r | None => None end
  end.

Definition is_controller (e : event) : bool :=
  match e with CStart _ _ | CChan | CDeadline | CRecv | CExpire => true | _ => false end.

(* the one known defect class: some process gave up its copies of the output pipes *)
Definition detaches (tr : list event) : bool :=
  existsb (fun e => match e with EClosePipe _ => true | _ => false end) tr.

(* some process left the process group (setsid, setpgid, daemonising) *)
Definition escapes (tr : list event) : bool :=
  existsb (fun e => match e with EEscape _ => true | _ => false end) tr.

(* the controller's steps that depend on nothing but clocks: no receive from ch anywhere *)
Definition timer_only (e : event) : bool :=
  match e with Tick _ | CStart _ _ | CDeadline | CExpire => true | _ => false end.

(* ---- correspondence: a generated command, described as a process tree, and what was observed ---- *)
Record pspec := mkSpec {
  sp_parent : nat;       (* index of the parent (ignored for process 0) *)
  sp_ign : bool;         (* trap '' TERM in effect (own or inherited) *)
  sp_detached : bool;    (* exec >/dev/null 2>&1 in effect (own or inherited) *)
  sp_setsid : bool;      (* started through setsid(1) *)
  sp_life : N            (* exits by itself this many ms after it started *)
}.

Inductive case :=
| Case (m : mode) (specs : list pspec) (T : N)
       (timed_out : bool)          (* the returned error was context.DeadlineExceeded; otherwise it was nil *)
       (sigs : list N)             (* signals the executor logged, in order *)
       (t_term gap1 gap2 : N)      (* ms: start -> first signal, first -> second signal, second signal -> return *)
       (elapsed scan : N)          (* ms: start -> return, start -> last scan of /proc *)
       (surv_in surv_out : N)      (* marked processes found by that scan: in the harness's session / in another session *)
(* second stream (Model/C30_deadline.v): one build_rule call interpreted by the real asp interpreter under the
   configuration c, and the target.BuildTimeout / target.Test.Timeout it produced (or the failure of the call) *)
| DeadlineCase (c : dconfig) (d : decl) (observed : tres).

Definition check_lat : N := 500.      (* tolerated lateness of each timer under load *)
Definition life_margin : N := 1000.    (* a process may outlive sp_life by its own start-up delay *)

Fixpoint setup_from (i : nat) (l : list pspec) : list event :=
  match l with
  | [] => []
  | sp :: r =>
      (match i with O => [] | _ => [EFork (sp_parent sp)] end)
      ++ [ESetIgn i (sp_ign sp)]
      ++ (if sp_detached sp then [EClosePipe i] else [])
      ++ (if sp_setsid sp then [EEscape i] else [])
      ++ setup_from (S i) r
  end.

(* processes that are gone by time t: their life is over, or they were sent SIGKILL, or SIGTERM without ignoring it.
   A process starts later than the command does (by its own start-up delay), so it may outlive sp_life by that much.
   For a process that is outside the group and holds no pipe this changes nothing the controller can see, so along
   the path (strict = false) such a process is not forced to exit when its life is over: only the final comparison
   of the survivors (strict = true, with life_margin) decides about it. *)
Fixpoint exits_from (strict : bool) (i : nat) (specs : list pspec) (l : list proc) (t : N) : list event :=
  match specs, l with
  | sp :: specs', p :: l' =>
      (if alive p && (((sp_life sp <=? t) && (strict || in_group p || holds_pipe p))
                      || got_kill p || (got_term p && negb (ign_term p))) then [EExit i] else [])
      ++ exits_from strict (S i) specs' l' t
  | _, _ => []
  end.

Definition bind {A B} (o : option A) (f : A -> option B) : option B := match o with Some x => f x | None => None end.

Definition go (T : N) (st : state) (tr : list event) : option state := run linux T check_lat st tr.
Definition reap_with (strict : bool) (specs : list pspec) (T : N) (st : state) (t : N) : option state :=
  go T st (exits_from strict 0 specs (procs st) t).
Definition reap := reap_with false.

Definition count_alive (in_grp : bool) (l : list proc) : N :=
  N.of_nat (length (filter (fun p => alive p && Bool.eqb (in_group p) in_grp) l)).

(* after the return: advance to the scan, and compare the survivors *)
Definition survivors_ok (specs : list pspec) (T : N) (st : state) (ret scan surv_in surv_out : N) : bool :=
  match bind (go T st [Tick (scan - ret)]) (fun st1 =>
        bind (reap_with true specs T st1 (scan - life_margin)) (fun hi =>
        bind (reap_with true specs T hi scan) (fun lo => Some (hi, lo)))) with
  | Some (hi, lo) =>
      (count_alive true (procs lo) <=? surv_in) && (surv_in <=? count_alive true (procs hi))
      && (count_alive false (procs lo) <=? surv_out) && (surv_out <=? count_alive false (procs hi))
  | None => false
  end.

Definition started (m : mode) (specs : list pspec) (T : N) : option state :=
  go T init (CStart true m :: setup_from 0 specs).

Definition is_ret (e : err) (st : state) : bool :=
  match ctl st, e with
  | PcRet _ ErrNone, ErrNone => true
  | PcRet _ ErrDeadline, ErrDeadline => true
  | _, _ => false
  end.

(* the three ways through killProcess *)
Inductive path := PTermOk | PKillOk | PKillExpired.

Definition timeout_path (m : mode) (specs : list pspec) (T t_term gap1 gap2 : N) (p : path) : option state :=
  bind (started m specs T) (fun s0 =>
  bind (go T s0 [Tick t_term]) (fun s1 =>
  bind (reap specs T s1 t_term) (fun s2 =>
  bind (go T s2 [CDeadline; Tick gap1]) (fun s3 =>
  bind (reap specs T s3 (t_term + gap1)) (fun s4 =>
  bind (go T s4 [match p with PTermOk => CRecv | _ => CExpire end; Tick gap2]) (fun s5 =>
  bind (reap specs T s5 (t_term + gap1 + gap2)) (fun s6 =>
  go T s6 ((match p with PKillOk => CRecv | _ => CExpire end) :: (if drains then [CRecv] else []))))))))).

Definition normal_path (m : mode) (specs : list pspec) (T elapsed : N) : option state :=
  bind (started m specs T) (fun s0 =>
  bind (go T s0 [Tick elapsed]) (fun s1 =>
  bind (reap specs T s1 elapsed) (fun s2 =>
  go T s2 [CChan]))).

Definition check (c : case) : bool :=
  match c with
  | Case m specs T timed_out sigs t_term gap1 gap2 elapsed scan surv_in surv_out =>
      if timed_out then
        list_eqb N.eqb sigs [sig1; sig2]
        && (t_term + gap1 + gap2 <=? elapsed) && (elapsed <=? t_term + gap1 + gap2 + 2)
        && existsb (fun p =>
             match timeout_path m specs T t_term gap1 gap2 p with
             | Some st => is_ret ErrDeadline st
                          && survivors_ok specs T st (t_term + gap1 + gap2) scan surv_in surv_out
             | None => false
             end) [PTermOk; PKillOk; PKillExpired]
      else
        list_eqb N.eqb sigs []
        && match normal_path m specs T elapsed with
           | Some st => is_ret ErrNone st && survivors_ok specs T st elapsed scan surv_in surv_out
           | None => false
           end
  | DeadlineCase c d observed => tres_eqb (create_target c d) observed
  end.
