(* C18 - frozen (imported) values behave like ordinary values.  No proofs here.
   The applications of the listed builtins and operators to one value, as the interpreter performs them:
   validateType against the declared argument types, then the native code (Model/C16_Eval.v `native`),
   respectively the Operator method (`apply_bin`), iteration, indexing. *)
From PlzV Require Import Base.Harness Model.C16_Syntax Model.C16_Ops Model.C16_Prim Model.C16_Eval Model.C16 Model.C18_Config Model.C18_Attr.
From PlzV Require Import Gen.C18Pins.

(* ---- isinstance (builtins.go isinstance / isType; not part of the shared evaluator) ----
   The type arguments are the builtin functions list, dict, str, int, bool, range, callable, given by name:
   isinstance(V, t) (single = true) or isinstance(V, [t1, ...]). *)
Definition is_type (v : value) (name : str) : bool :=          (* isType: a type switch on the dynamic type *)
  match v with
  | VBool _ => str_eqb name (s "bool") || str_eqb name (s "int")
  | VInt _ => str_eqb name (s "int")
  | VStr _ => str_eqb name (s "str")
  | VRange _ _ _ => str_eqb name (s "range")
  | VList _ | VNilList => str_eqb name (s "list")
  | VDict _ => str_eqb name (s "dict")
  | VFunc _ | VBuiltin _ => str_eqb name (s "callable")
  | VFrozenList _ | VFrozenDict _ | VNone => false              (* `case pyList` / `case pyDict` do not match the wrappers *)
  end.

Definition isinstance_model (unwraps : bool) (obj : value) (tys : list str) (single : bool) : bool :=
  let obj1 := if unwraps then match obj with VFrozenList sl => VList sl | VFrozenDict i => VDict i | _ => obj end else obj in
  let is_func := match obj1 with VFunc _ | VBuiltin _ => true | _ => false end in
  (* the loop: li is a *pyFunc, so only the isType branch can succeed (reflect.TypeOf(obj) == *pyFunc is excluded) *)
  if existsb (is_type obj1) tys then true
  else if is_func then false
  else (* reflect.TypeOf(obj) == reflect.TypeOf(typesArg): a pyList of types against a pyList object *)
       negb single && match obj1 with VList _ | VNilList => true | _ => false end.

(* the correspondence cases of C18 are interpreter runs (the case type of C16), and CONFIG round trips
   (Model/C18_Config.v run_cfg: the entries are set by a subincluded file, or by the package itself) *)
Inductive case :=
| CEval (c : C16.case)
| CCfg (imported : bool) (ops : list cfgop) (reads : list (str * cfgread * str)) (body : prog) (observed : outcome)
| CIsInst (imported : bool) (lit : expr) (tys : list str) (single : bool) (observed : bool)
| CAttr (imported : bool) (lit : expr) (path : list access) (body : prog) (observed : outcome)
    (* D = lit (in the package, or in a subincluded file: frozen); X = D<path>; body   (Model/C18_Attr.v run_attr) *)
| CPlugin (name : str) (fields : list pfield) (path : list access) (body : prog) (observed : outcome).
    (* subinclude(an output of the plugin `name`); X = CONFIG.<NAME><path>; body        (Model/C18_Attr.v run_plugin) *)
    (* V = lit (in the package, or in a subincluded file: frozen); r = isinstance(V, tys) *)

Definition run_isinst (fuel : nat) (imported : bool) (lit : expr) (tys : list str) (single : bool) : option bool :=
  let '(_, st0) := push_scope empty_state in
  match eval_expr Asp [] fuel lit st0 with
  | Ok (v, st1) =>
      if imported then
        match freeze 32 v st1 with
        | Ok (fv, _) => Some (isinstance_model isinstance_unwraps fv tys single)
        | _ => None
        end
      else Some (isinstance_model isinstance_unwraps v tys single)
  | _ => None
  end.

Definition check (c : case) : bool :=
  match c with
  | CEval c0 => C16.check c0
  | CCfg imported ops reads body observed => outcome_eqb (run_cfg FUEL imported ops reads body) observed
  | CIsInst imported lit tys single observed =>
      match run_isinst FUEL imported lit tys single with Some b => Bool.eqb b observed | None => false end
  | CAttr imported lit path body observed => outcome_eqb (run_attr FUEL imported lit path body) observed
  | CPlugin name fields path body observed => outcome_eqb (run_plugin FUEL name fields path body) observed
  end.

Inductive bapp :=
| BNative (name : str) (before after : list value)   (* name(before..., V, after...) for the natives of `native` *)
| BHof (name : str) (fn : prog)                      (* map/filter/reduce(f, V) with f the function fn defines *)
| BContains (x : value)                              (* x in V *)
| BAddL (other : value)                              (* V + other *)
| BAddR (other : value)                              (* other + V *)
| BEq (other : value)                                (* V == other *)
| BEqSame                                            (* V == an ordinary list/dict with the same contents *)
| BMulL (n : Z) | BMulR (n : Z)                      (* V * n, n * V *)
| BIter                                              (* for x in V / comprehension *)
| BJoin (sep : str)                                  (* sep.join(V) *)
| BIndex (i : value)                                 (* V[i] *)
| BSliceOf (lo hi : option value)                    (* V[lo:hi] *)
| BStr                                               (* str(V) *)
| BTruthy                                            (* if V *)
| BUnpack (n : nat).                                 (* a, b = V *)

Definition unfreeze (v : value) : value :=
  match v with VFrozenList sl => VList sl | VFrozenDict i => VDict i | _ => v end.

Definition call_native (fuel : nat) (name : str) (args : list value) (st : state) : res (value * state) :=
  match native_sig name with
  | None => Err EUnsupported
  | Some (sg, varargs) =>
      (* callNative with positional arguments only *)
      if negb varargs && Nat.ltb (length sg) (length args) then Err EType else
      do vals <- (fix go (sg0 : list (str * N * option value)) (l : list value) : res (list value) :=
                    match sg0 with
                    | [] => Ok l              (* varargs: the rest is passed through unchecked *)
                    | (_, t, def) :: sr =>
                        match l with
                        | v :: r => do v' <- validate t def v; do vs <- go sr r; Ok (v' :: vs)
                        | [] => match def with Some dv => do vs <- go sr []; Ok (dv :: vs) | None => Err EType end
                        end
                    end) sg args;
      native Asp fuel name vals st
  end.

(* the outcome of an application: the rendered value, or the fact that it raised *)
Inductive bres := BVal (o : obs) | BRaise | BRefused.

Definition bres_of (r : res (value * state)) : bres :=
  match r with
  | Ok (v, st) => BVal (render Asp 64 st v)
  | Err EType => BRaise
  | _ => BRefused
  end.

Definition bres_eqb (a b : bres) : bool :=
  match a, b with
  | BVal x, BVal y => obs_plain_eqb x y
  | BRaise, BRaise => true
  | _, _ => false
  end.

Definition apply_b (fuel : nat) (b : bapp) (v : value) (st : state) : bres :=
  match b with
  | BNative name before after => bres_of (call_native fuel name (before ++ v :: after) st)
  | BHof name fn =>
      (* define f in a fresh file scope, bind V there, and evaluate name(f, V) through the interpreter *)
      let idx := length (fscopes st) in
      let st1 := set_locals [] (set_cur idx (set_fscopes (fscopes st ++ [[(s "V", v)]]) st)) in
      match exec_block Asp [] fuel fn st1 with
      | Ok (_, st2) =>
          bres_of (eval_expr Asp [] fuel (Ex (XCall name [(None, Ex (XIdent (s "f")) [] None); (None, Ex (XIdent (s "V")) [] None)]) [] None) st2)
      | _ => BRefused
      end
  | BContains x => bres_of (apply_bin Asp fuel In x v st)
  | BAddL other => bres_of (apply_bin Asp fuel Add v other st)
  | BAddR other => bres_of (apply_bin Asp fuel Add other v st)
  | BEq other => bres_of (apply_bin Asp fuel C16_Syntax.Eq v other st)
  | BEqSame => bres_of (apply_bin Asp fuel C16_Syntax.Eq v (unfreeze v) st)
  | BMulL n => bres_of (apply_bin Asp fuel Mul v (VInt n) st)
  | BMulR n => bres_of (apply_bin Asp fuel Mul (VInt n) v st)
  | BIter => match iter_items Asp st v with
             | Ok items => BVal (OList false 0 (map (render Asp 64 st) items))
             | Err EType => BRaise
             | _ => BRefused
             end
  | BJoin sep => bres_of (native_method Asp fuel (s "join") [VStr sep; v] st)
  | BIndex i => match vindex Asp st v i with Ok x => BVal (render Asp 64 st x) | Err EType => BRaise | _ => BRefused end
  | BSliceOf lo hi => bres_of (vslice Asp st v lo hi)
  | BStr => bres_of (call_native fuel (s "str") [v] st)
  | BTruthy => BVal (OBool (truthy Asp st v))
  | BUnpack n => match unpack_names Asp (map (fun i => [N.of_nat i]) (seq 0 n)) v st with
                 | Ok _ => BVal ONone
                 | Err EType => BRaise
                 | _ => BRefused
                 end
  end.

(* the builtins and operators the property lists *)
Definition f_inc : prog := [SDef (s "f") [(s "x", None)] [SReturn (Some (Ex (XIdent (s "x")) [OBin Add (XInt 1)] None))]].
Definition f_add : prog := [SDef (s "f") [(s "x", None); (s "y", None)] [SReturn (Some (Ex (XIdent (s "x")) [OBin Add (XIdent (s "y"))] None))]].

Definition listed_list (other : value) (x : value) : list bapp :=
  [BNative (s "sorted") [] []; BNative (s "reversed") [] []; BNative (s "enumerate") [] []; BNative (s "any") [] [];
   BNative (s "all") [] []; BNative (s "zip") [] [other]; BNative (s "zip") [other] []; BNative (s "min") [] [];
   BNative (s "max") [] []; BHof (s "map") f_inc; BHof (s "filter") f_inc; BHof (s "reduce") f_add;
   BNative (s "len") [] []; BContains x; BAddL other; BAddR other; BEqSame].

(* those of them that accept the frozen wrappers (found by reading each type assertion) *)
Definition accepting (b : bapp) : bool :=
  match b with
  | BContains _ | BAddL _ | BIter | BJoin _ | BIndex _ | BStr | BTruthy | BMulL _ => true
  | BAddR other => match other with VRange _ _ _ => false | _ => true end      (* range + list asserts pyList *)
  | BNative name [] [] => str_eqb name (s "len")
  | _ => false
  end.
