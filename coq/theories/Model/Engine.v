(* Engine - the incremental build engine (shared by C01, C03, C02).
   Executable model of what buildTarget (src/build/build_step.go:164) does to PERSISTENT state:
   plz-out (outputs + the records written by writeRuleHash, incrementality.go:341, + the
   .target_build_metadata files) and the directory cache (src/cache/dir_cache.go).
   Hashes are modelled by the byte streams / values they are taken over:
     - path hash of a tree  = `stream`  (fs/hash.go:174: a file is its content; a directory is the
       concatenation of the contents of its files in sorted walk order, NAMES NOT INCLUDED)
     - source hash          = list of (path, stream) over IterSources (core/utils.go:121), followed by the streams
                              of the outputs of the tools WITHOUT their paths (incrementality.go:122-130; the entry of a
                              tool carries the empty path: h.Write of nothing)
     - rule hash            = `t_defkey` (the target's BUILD entry without comments; C08 is separate);
                              the post-build rule hash of a target that the build can modify (output_dirs)
                              = (t_defkey, the outputs the target has at that moment)
     - cache key            = (rule key, source key)   (CollapseHash of the parts, utils.go:494)
   Targets with output_dirs (the e2e command `outdir`) go through the two-phase check of buildTarget
   (build_step.go:226-260): needsBuilding(postBuild=false) on the declared outputs, then the outputs named
   in the stored metadata are added to the target, then needsBuilding(postBuild=true) on all of them.
   Filegroups may have DIRECTORY sources (filegroup.go:65: RemoveAll + recursive link when the hashes differ); genrules
   may use other targets as tools (every command: the tool outputs enter the source key; the commands UseTool / UseNTool:
   cat $TOOLS $SRCS and ToolNames: the names in $TOOLS see them, every other command works on $SRCS alone: src_ins); the command CatAll globs the temporary
   directory, which prepareDirectory(tmpDir, remove = true) (build_step.go:577) recreates empty before every build:
   the temporary directory is a function of the sources and is no part of the persistent state.
   Not modelled: the cache for output_dirs targets (they never use it here), dependents of output_dirs
   targets (they would see the discovered outputs), post-build functions.
   Tools declared in dict form (tools = {"n": [...]}, the command UseNTool reaches them through $TOOLS_N) are tools like the
   others for the command; whether they enter the source hash follows the accessor sourceHash ranges over in the
   source (Gen/EngineRecord.v, source_hash_tools: AllTools() = list-form then dict-form tools; Tools = list-form only).
   No proofs here. *)
From PlzV Require Gen.EngineRecord.
From PlzV Require Import Base.Harness.

(* ------------------------------------------------------------------------------------------ *)
(* file trees *)

Inductive node :=
| File (exec : bool) (content : str)
| Dir (entries : list (str * node)).        (* canonical: sorted by name *)

(* PathHasher.hash: file -> fileHash (content); directory -> WalkMode, fileHash of every
   non-directory in sorted order, nothing for directories, nothing for names. *)
Fixpoint stream (n : node) : str :=
  match n with
  | File _ c => c
  | Dir es => (fix go (l : list (str * node)) : str :=
                 match l with [] => [] | e :: r => stream (snd e) ++ go r end) es
  end.

Fixpoint node_eqb (a b : node) : bool :=
  match a, b with
  | File e c, File e' c' => Bool.eqb e e' && str_eqb c c'
  | Dir es, Dir es' =>
      (fix go (l l' : list (str * node)) : bool :=
         match l, l' with
         | [], [] => true
         | x :: r, x' :: r' => str_eqb (fst x) (fst x') && node_eqb (snd x) (snd x') && go r r'
         | _, _ => false
         end) es es'
  | _, _ => false
  end.

(* ------------------------------------------------------------------------------------------ *)
(* small utilities *)

Fixpoint alookup {A} (k : str) (l : list (str * A)) : option A :=
  match l with
  | [] => None
  | (k', v) :: r => if str_eqb k k' then Some v else alookup k r
  end.

Definition mem (k : str) (l : list str) : bool := existsb (str_eqb k) l.

Fixpoint ins_str (x : str) (l : list str) : list str :=
  match l with
  | [] => [x]
  | y :: r => if str_leb x y then x :: l else y :: ins_str x r
  end.
Definition sort_str (l : list str) : list str := fold_right ins_str [] l.

(* sorted insert into a directory; an existing entry of the same name is replaced (cp overwrites) *)
Fixpoint ins_entry (k : str) (v : node) (l : list (str * node)) : list (str * node) :=
  match l with
  | [] => [(k, v)]
  | (k', v') :: r =>
      match str_cmp k k' with
      | Lt => (k, v) :: l
      | Eq => (k, v) :: r
      | Gt => (k', v') :: ins_entry k v r
      end
  end.

Definition slash : N := 47.
Definition join (pkg o : str) : str := match pkg with [] => o | _ => pkg ++ slash :: o end.

Fixpoint basename_acc (acc p : str) : str :=
  match p with
  | [] => acc
  | c :: r => if N.eqb c slash then basename_acc [] r else basename_acc (acc ++ [c]) r
  end.
Definition basename (p : str) : str := basename_acc [] p.

Fixpoint dec_fuel (fuel : nat) (n : N) (acc : str) : str :=
  match fuel with
  | O => acc
  | S f => let d := (48 + n mod 10)%N in
           if (n <? 10)%N then d :: acc else dec_fuel f (n / 10)%N (d :: acc)
  end.
Definition dec (n : N) : str := dec_fuel 40 n [].
Definition nl : str := [10%N].

(* ------------------------------------------------------------------------------------------ *)
(* repositories *)

(* the closed command language of harness/e2e (Cmd.Shell) *)
Inductive cmd :=
| Concat            (* cat $SRCS > first of $OUTS; the other outs get `echo $SRCS | wc -w` *)
| CopyDir           (* mkdir $OUTS; cp -r every source into it by base name *)
| ListNames         (* for a directory source: find . | sort; for a file source: its path *)
| Const (arg : str) (* echo arg > every out *)
| Fail              (* exit 1 *)
| CatAll (dir : str) (* (cd $PKG_DIR && cat every regular *.txt file there, in glob order) > $OUTS; dir = $PKG_DIR *)
| UseTool           (* cat $TOOLS $SRCS > $OUTS *)
| ToolNames         (* for t in $TOOLS; do basename $t; done > $OUTS: depends on the NAMES of the tool outputs *)
| OutDir            (* output_dirs = ["_o"]: cp every (file) source into _o by base name; echo fixed > first of $OUTS *)
| UseNTool.         (* cat $TOOLS_N $SRCS > $OUTS with tools = {"n": [...]}: ALL tools of such a target are dict-form (named) *)

Inductive kind :=
| Genrule (c : cmd)
| Filegroup
| TextFile (content : str).

Inductive src :=
| SFile (f : str)        (* a file of the target's package *)
| SLabel (l : str)       (* another target, "//pkg:name" *)
| STool (l : str).       (* tools = [l]: another target whose outputs the command reaches through $TOOLS; not in $SRCS *)

Record target := mkT {
  t_label : str;         (* "//pkg:name" *)
  t_pkg : str;
  t_kind : kind;
  t_srcs : list src;     (* in declaration order *)
  t_outs : list str;     (* declared outs (ignored for filegroups) *)
  t_defkey : str         (* stands for the rule hash: the BUILD entry without comments *)
}.

Record repo := mkR {
  r_files : list (str * str);     (* source files: repo-relative path -> content *)
  r_targets : list target         (* dependencies before dependents *)
}.

Fixpoint find_target (ts : list target) (l : str) : option target :=
  match ts with
  | [] => None
  | t :: r => if str_eqb l (t_label t) then Some t else find_target r l
  end.

Fixpoint file_srcs (l : list src) : list str :=
  match l with
  | [] => []
  | SFile f :: r => f :: file_srcs r
  | SLabel _ :: r => file_srcs r
  | STool _ :: r => file_srcs r
  end.
Fixpoint label_srcs (l : list src) : list str :=
  match l with
  | [] => []
  | SFile _ :: r => label_srcs r
  | SLabel x :: r => x :: label_srcs r
  | STool x :: r => x :: label_srcs r       (* a tool is a dependency like any other *)
  end.

(* BuildTarget.Outputs(): sorted; a filegroup outputs its sources under the same names *)
Definition outputs (t : target) : list str :=
  sort_str (match t_kind t with Filegroup => file_srcs (t_srcs t) | _ => t_outs t end).
Definition out_rel (t : target) (o : str) : str := join (t_pkg t) o.
Definition out_rels (t : target) : list str := map (out_rel t) (outputs t).

(* A path an action reads: (generated?, path).  (false, "p/a.txt") is the source file p/a.txt;
   (true, "p/t.out") is plz-out/gen/p/t.out.  The temporary-directory path of both is the second
   component (core/utils.go:128). *)
Definition path := (bool * str)%type.
Definition path_eqb (a b : path) : bool := Bool.eqb (fst a) (fst b) && str_eqb (snd a) (snd b).

Definition src_paths (r : repo) (t : target) (x : src) : list path :=
  match x with
  | SFile f => [(false, join (t_pkg t) f)]
  | SLabel l => match find_target (r_targets r) l with
                | Some d => map (fun o => (true, out_rel d o)) (outputs d)
                | None => []
                end
  | STool _ => []
  end.
(* the outputs of the tools (BuildInput.FullPaths of every tool, in declaration order) *)
Definition tool_paths (r : repo) (t : target) : list path :=
  flat_map (fun x => match x with
                     | STool l => match find_target (r_targets r) l with
                                  | Some d => map (fun o => (true, out_rel d o)) (outputs d)
                                  | None => []
                                  end
                     | _ => []
                     end) (t_srcs t).
(* $SRCS: AllSourcePaths, NOT de-duplicated (core/build_env.go:92) *)
Definition all_paths (r : repo) (t : target) : list path := flat_map (src_paths r t) (t_srcs t).
(* IterSources: de-duplicated by temporary path, first occurrence wins (core/utils.go:128) *)
Fixpoint dedup (seen : list str) (l : list path) : list path :=
  match l with
  | [] => []
  | p :: r => if mem (snd p) seen then dedup seen r else p :: dedup (snd p :: seen) r
  end.
Definition iter_sources (r : repo) (t : target) : list path := dedup [] (all_paths r t).

(* ------------------------------------------------------------------------------------------ *)
(* persistent state *)

(* what writeRuleHash records on every output: pre-build rule hash, post-build rule hash, source hash
   (config and secret hashes are constant in the modelled histories).  The pre-build rule hash is the
   rule key; the post-build rule hash is (rule key, pk_outs): pk_outs = [] for a target the build cannot
   modify (RuleHash returns the memoised pre-build hash), else the outputs of the target when the record
   was written (declared and discovered, RuleHash re-hashes target.outputs). *)
Definition skey := list (path * str).
Definition rule_key := (str * list str)%type.
Definition rkey := (rule_key * skey)%type.
Definition skey_eqb : skey -> skey -> bool :=
  list_eqb (fun a b => path_eqb (fst a) (fst b) && str_eqb (snd a) (snd b)).
Definition rule_key_eqb (a b : rule_key) : bool := str_eqb (fst a) (fst b) && list_eqb str_eqb (snd a) (snd b).
Definition rkey_eqb (a b : rkey) : bool := rule_key_eqb (fst a) (fst b) && skey_eqb (snd a) (snd b).
Definition rk_def (rk : rkey) : str := fst (fst rk).
Definition rk_outs (rk : rkey) : list str := snd (fst rk).

Record entry := mkE { e_node : node; e_rec : option rkey }.

Record store := mkS {
  s_outs : str -> option entry;        (* plz-out/gen: path -> tree + xattr user.plz_build *)
  s_meta : str -> bool;                (* label -> .target_build_metadata_<name> exists *)
  s_dyn : str -> list str;             (* label -> OutputDirOuts stored in that file (meaningful when s_meta) *)
  s_cache : str -> rkey -> option (list (str * node))   (* <dir>/<pkg>/<name>/<key> -> outs *)
}.

Definition empty_store : store := mkS (fun _ => None) (fun _ => false) (fun _ => []) (fun _ _ => None).
(* rm -rf plz-out: the cache directory is elsewhere *)
Definition wipe (st : store) : store := mkS (fun _ => None) (fun _ => false) (fun _ => []) (s_cache st).

Definition upd {A} (f : str -> A) (k : str) (v : A) : str -> A :=
  fun k' => if str_eqb k' k then v else f k'.
Definition set_out (st : store) (rel : str) (e : option entry) : store :=
  mkS (upd (s_outs st) rel e) (s_meta st) (s_dyn st) (s_cache st).
(* StoreTargetMetadata (incrementality.go:391): the file is replaced; OutputDirOuts = what the build found *)
Definition set_meta_dyn (st : store) (l : str) (d : list str) : store :=
  mkS (s_outs st) (upd (s_meta st) l true) (upd (s_dyn st) l d) (s_cache st).
Definition set_meta (st : store) (l : str) : store := set_meta_dyn st l [].
Definition set_cache (st : store) (l : str) (k : rkey) (v : list (str * node)) : store :=
  mkS (s_outs st) (s_meta st) (s_dyn st)
      (fun l' k' => if str_eqb l' l && rkey_eqb k' k then Some v else s_cache st l' k').

(* ------------------------------------------------------------------------------------------ *)
(* reading inputs, keys *)

Definition read (r : repo) (st : store) (p : path) : option node :=
  if fst p then option_map e_node (s_outs st (snd p))
  else option_map (File false) (alookup (snd p) (r_files r)).

(* a source DIRECTORY of the repository: everything below rel, as a tree *)
Fixpoint strip_prefix (pre x : str) : option str :=
  match pre, x with
  | [], _ => Some x
  | a :: pre', b :: x' => if N.eqb a b then strip_prefix pre' x' else None
  | _ :: _, [] => None
  end.
Fixpoint split_acc (acc p : str) : list str :=
  match p with
  | [] => [acc]
  | c :: r => if N.eqb c slash then acc :: split_acc [] r else split_acc (acc ++ [c]) r
  end.
Definition split_path (p : str) : list str := split_acc [] p.
Fixpoint tree_ins (segs : list str) (c : str) (es : list (str * node)) : list (str * node) :=
  match segs with
  | [] => es
  | [x] => ins_entry x (File false c) es
  | x :: rest => ins_entry x (Dir (tree_ins rest c (match alookup x es with Some (Dir d) => d | _ => [] end))) es
  end.
Definition below (r : repo) (rel : str) : list (str * str) :=
  flat_map (fun fc => match strip_prefix (rel ++ [slash]) (fst fc) with Some rest => [(rest, snd fc)] | None => [] end) (r_files r).
Definition dir_node (r : repo) (rel : str) : option node :=
  match below r rel with
  | [] => None
  | sub => Some (Dir (fold_left (fun es fc => tree_ins (split_path (fst fc)) (snd fc) es) sub []))
  end.
(* the source a filegroup links: a file, or a directory *)
Definition fg_src (r : repo) (rel : str) : option node :=
  match alookup rel (r_files r) with
  | Some c => Some (File false c)
  | None => dir_node r rel
  end.

Fixpoint gather (rd : path -> option node) (l : list path) : option (list (path * node)) :=
  match l with
  | [] => Some []
  | p :: r => match rd p, gather rd r with
              | Some n, Some ns => Some ((p, n) :: ns)
              | _, _ => None
              end
  end.

Definition key_of (ins : list (path * node)) : skey := map (fun pn => (fst pn, stream (snd pn))) ins.

(* the inputs of a tool enter hashes and commands without their paths *)
Definition nopath : path := (true, []).
Definition anon_ins (ins : list (path * node)) : list (path * node) := map (fun pn => (nopath, snd pn)) ins.

(* are the tools of t declared in dict form?  (in the modelled fragment: exactly the targets whose command is UseNTool) *)
Definition named_tools (t : target) : bool := match t_kind t with Genrule UseNTool => true | _ => false end.
(* does the tools loop of sourceHash reach the dict-form tools?  regenerated from incrementality.go *)
Definition hash_named_tools : bool :=
  match EngineRecord.source_hash_tools with EngineRecord.TAllTools => true | EngineRecord.TUnnamedTools => false end.
(* the tool outputs that enter the source hash *)
Definition hashed_tool_paths (r : repo) (t : target) : list path :=
  if negb hash_named_tools && named_tools t then [] else tool_paths r t.

(* sourceHash (incrementality.go:112): for src in IterSources: h(path hash of src), src; then for every output of
   every tool the loop reaches: h(path hash) - nothing else *)
Definition source_key (r : repo) (st : store) (t : target) : option skey :=
  match gather (read r st) (iter_sources r t), gather (read r st) (hashed_tool_paths r t) with
  | Some a, Some b => Some (key_of a ++ key_of (anon_ins b))
  | _, _ => None
  end.

(* for the COMMAND a tool output keeps its name ($TOOLS), marked by a leading 0 byte (no temporary path starts with it) *)
Definition tool_ins (ins : list (path * node)) : list (path * node) :=
  map (fun pn => ((true, 0%N :: snd (fst pn)), snd pn)) ins.

(* what the command of t reads: $SRCS with their temporary paths, then the outputs of the tools (no temporary path:
   tools stay where they are) *)
Definition gather_in (r : repo) (st : store) (t : target) : option (list (path * node)) :=
  match gather (read r st) (all_paths r t), gather (read r st) (tool_paths r t) with
  | Some a, Some b => Some (a ++ tool_ins b)
  | _, _ => None
  end.

(* readRuleHashFromXattrs (incrementality.go:294): every output must carry the same record.
   The loop over the outputs is REGENERATED from the source (Gen/EngineRecord.v, read_record_loop): a missing record
   fails; with RDifferentFails a record different from the one seen so far fails (all outputs carry the same record);
   without it the record of the first output (RKeepFirst) or of the last one (RTakeLast) is taken and the others only
   need to carry some record. *)
Definition rec_at (st : store) (rel : str) : option rkey :=
  match s_outs st rel with Some e => e_rec e | None => None end.
Definition rec_all_equal : bool :=
  existsb (fun x => match x with EngineRecord.RDifferentFails => true | _ => false end) EngineRecord.read_record_loop.
Definition rec_keep_first : bool :=
  existsb (fun x => match x with EngineRecord.RKeepFirst => true | _ => false end) EngineRecord.read_record_loop.
Fixpoint common_rec (st : store) (rels : list str) : option rkey :=
  match rels with
  | [] => None
  | x :: rest =>
      match rest with
      | [] => rec_at st x
      | _ => match rec_at st x, common_rec st rest with
             | Some a, Some b =>
                 if rec_all_equal then (if rkey_eqb a b then Some a else None)
                 else if rec_keep_first then Some a else Some b
             | _, _ => None
             end
      end
  end.

(* needsBuilding (incrementality.go:49) *)
Definition needs_build (r : repo) (st : store) (t : target) : bool :=
  negb (s_meta st (t_label t))
  || match common_rec st (out_rels t) with
     | None => true
     | Some rk =>
         negb (str_eqb (rk_def rk) (t_defkey t))
         || match source_key r st t with
            | None => true
            | Some k => negb (skey_eqb (snd rk) k)
            end
     end.

(* BuildCouldModifyTarget (build_target.go:2026): output_dirs (post-build functions are not in the language) *)
Definition could_modify (t : target) : bool :=
  match t_kind t with Genrule OutDir => true | _ => false end.

(* BuildTarget.AddOutput / insert (build_target.go:1908): sorted insert, nothing when already present *)
Fixpoint add_out (x : str) (l : list str) : list str :=
  match l with
  | [] => [x]
  | y :: r => match str_cmp x y with Eq => l | Lt => x :: l | Gt => y :: add_out x r end
  end.
Definition add_outs (xs : list str) (l : list str) : list str := fold_left (fun acc x => add_out x acc) xs l.

(* needsBuilding(postBuild = true): the target now has the outputs `outs` (declared + those of the metadata);
   every one of them must carry the same record, whose POST-build rule hash - taken over these outputs -
   must be the current one *)
Definition needs_build_post (r : repo) (st : store) (t : target) (outs : list str) : bool :=
  negb (s_meta st (t_label t))
  || match common_rec st (map (out_rel t) outs) with
     | None => true
     | Some rk =>
         negb (str_eqb (rk_def rk) (t_defkey t) && list_eqb str_eqb (rk_outs rk) outs)
         || match source_key r st t with
            | None => true
            | Some k => negb (skey_eqb (snd rk) k)
            end
     end.

(* ------------------------------------------------------------------------------------------ *)
(* actions: the meaning of the command language on file trees *)

Fixpoint all_files (ins : list (str * node)) : option str :=
  match ins with
  | [] => Some []
  | (_, File _ c) :: r => option_map (app c) (all_files r)
  | (_, Dir _) :: _ => None                       (* cat: Is a directory *)
  end.

(* find . : the directory itself, then every entry below it *)
Fixpoint find_paths (prefix : str) (n : node) : list str :=
  prefix ::
  match n with
  | File _ _ => []
  | Dir es => (fix go (l : list (str * node)) : list str :=
                 match l with
                 | [] => []
                 | e :: r => find_paths (prefix ++ slash :: fst e) (snd e) ++ go r
                 end) es
  end.

Definition lines (l : list str) : str := flat_map (fun x => x ++ nl) l.

Definition list_names (ins : list (str * node)) : str :=
  flat_map (fun pn => match snd pn with
                      | Dir _ => lines (sort_str (find_paths [46%N] (snd pn)))
                      | File _ _ => fst pn ++ nl
                      end) ins.

(* CatAll: the regular files named dir/<base>.txt in the temporary directory (first occurrence of a temporary path
   wins, prepareSources walks IterSources), in the order of the shell's glob (sorted) *)
Fixpoint ends_with (suf x : str) : bool :=
  match x with
  | [] => match suf with [] => true | _ => false end
  | _ :: x' => str_eqb suf x || ends_with suf x'
  end.
Definition dot_txt : str := [46; 116; 120; 116]%N.
Definition glob_txt (dir name : str) : bool :=
  match strip_prefix (match dir with [] => [] | _ => dir ++ [slash] end) name with
  | Some base => negb (existsb (N.eqb slash) base) && ends_with dot_txt base
  | None => false
  end.
Definition cat_all (dir : str) (ins : list (str * node)) : str :=
  let es := fold_right (fun pn es => match snd pn with
                                     | File _ _ => if glob_txt dir (fst pn) then ins_entry (fst pn) (snd pn) es else es
                                     | Dir _ => es
                                     end) [] ins in
  flat_map (fun e => stream (snd e)) es.

(* the inputs of the tools are marked by a leading 0 byte *)
Definition is_tool_in (pn : str * node) : bool := match fst pn with c :: _ => N.eqb c 0 | [] => false end.
Definition tool_names (ins : list (str * node)) : str :=
  flat_map (fun pn => basename (tl (fst pn)) ++ nl) (filter is_tool_in ins).

Definition copy_entries (ins : list (str * node)) : list (str * node) :=
  fold_left (fun es pn => ins_entry (basename (fst pn)) (snd pn) es) ins [].
Definition copy_dir (ins : list (str * node)) : node := Dir (copy_entries ins).

(* what $SRCS names: the inputs of the tools are not among them (a command that does not mention $TOOLS never sees a tool) *)
Definition src_ins (ins : list (str * node)) : list (str * node) := filter (fun pn => negb (is_tool_in pn)) ins.

(* outs: $OUTS (sorted declared outputs); ins: $SRCS as (temporary path, tree), then the outputs of the tools (marked).
   Only UseTool / UseNTool / ToolNames mention $TOOLS; every other command works on $SRCS (src_ins) *)
Definition act (k : kind) (outs : list str) (ins : list (str * node)) : option (list (str * node)) :=
  match k with
  | Genrule Concat =>
      match outs with
      | [] => None
      | o :: rest =>
          match all_files (src_ins ins) with
          | Some c => Some ((o, File false c)
                            :: map (fun o' => (o', File false (dec (N.of_nat (length (src_ins ins))) ++ nl))) rest)
          | None => None
          end
      end
  | Genrule CopyDir => match outs with [o] => Some [(o, copy_dir (src_ins ins))] | _ => None end
  | Genrule ListNames => match outs with [o] => Some [(o, File false (list_names (src_ins ins)))] | _ => None end
  | Genrule (Const a) => Some (map (fun o => (o, File false (a ++ nl))) outs)
  | Genrule Fail => None
  | Genrule (CatAll dir) => match outs with [o] => Some [(o, File false (cat_all dir (src_ins ins)))] | _ => None end
  | Genrule UseTool | Genrule UseNTool =>
      match outs with
      | [o] => match all_files (filter is_tool_in ins ++ src_ins ins) with
               | Some c => Some [(o, File false c)]
               | None => None
               end
      | _ => None
      end
  | Genrule ToolNames => match outs with [o] => Some [(o, File false (tool_names ins))] | _ => None end
  | Genrule OutDir => None                        (* see od_cmd: its result is more than the declared outs *)
  | TextFile c => match outs with [o] => Some [(o, File false c)] | _ => None end
  | Filegroup => None
  end.

(* ------------------------------------------------------------------------------------------ *)
(* building one target *)

Record run := mkRun {
  rn_st : store;
  rn_log : list str;        (* labels whose action ran, most recent first *)
  rn_failed : list str      (* labels that failed or were not attempted *)
}.

(* moveOutput (build_step.go:741) then writeRuleHash: the existing output is KEPT when its path
   hash equals the path hash of the new one *)
Definition move_output (rk : rkey) (t : target) (st : store) (on : str * node) : store :=
  let rel := out_rel t (fst on) in
  let keep := match s_outs st rel with
              | Some e => if str_eqb (stream (e_node e)) (stream (snd on)) then Some (e_node e) else None
              | None => None
              end in
  set_out st rel (Some (mkE (match keep with Some old => old | None => snd on end) (Some rk))).

(* dirCache.retrieveFiles: RemoveAll + link of every out, then writeRuleHash *)
Definition restore_output (rk : rkey) (t : target) (st : store) (on : str * node) : store :=
  set_out st (out_rel t (fst on)) (Some (mkE (snd on) (Some rk))).

(* RemoveOutputs (build_step.go:782) after a failed build *)
Definition remove_outputs (t : target) (st : store) : store :=
  fold_left (fun s rel => set_out s rel None) (out_rels t) st.

Definition current_outs (t : target) (st : store) : list (str * node) :=
  flat_map (fun o => match s_outs st (out_rel t o) with
                     | Some e => [(o, e_node e)]
                     | None => []
                     end) (outputs t).

Definition fail_run (rn : run) (t : target) (st : store) : run :=
  mkRun st (rn_log rn) (t_label t :: rn_failed rn).

(* filegroupBuilder.Build (filegroup.go:65): keep `to` when it exists with the same hash, else RemoveAll(to) and
   link - recursively when the source is a directory: the old tree is REPLACED, never merged *)
Definition build_filegroup (r : repo) (t : target) (rn : run) : run :=
  fold_left (fun rn f =>
               let rel := join (t_pkg t) f in
               match fg_src r rel with
               | None => fail_run rn t (rn_st rn)
               | Some n =>
                   let st := rn_st rn in
                   match s_outs st rel with
                   | Some e => if str_eqb (stream (e_node e)) (stream n) then rn
                               else mkRun (set_out st rel (Some (mkE n None))) (rn_log rn) (rn_failed rn)
                   | None => mkRun (set_out st rel (Some (mkE n None))) (rn_log rn) (rn_failed rn)
                   end
               end) (outputs t) rn.

Definition blocked (r : repo) (rn : run) (t : target) : bool :=
  existsb (fun l => mem l (rn_failed rn) || match find_target (r_targets r) l with Some _ => false | None => true end)
          (label_srcs (t_srcs t)).

Definition tmp_ins (ins : list (path * node)) : list (str * node) := map (fun pn => (snd (fst pn), snd pn)) ins.

(* the command runs (build_step.go:317-419): prepareSources, build, StoreTargetMetadata, moveOutputs,
   writeRuleHash, storeInCache; on error Build() removes the outputs (build_step.go:73) *)
Definition run_action (cache_on : bool) (r : repo) (rn : run) (t : target) (rk : rkey) : run :=
  let st := rn_st rn in
  match gather_in r st t with
  | None => fail_run rn t (remove_outputs t st)
  | Some ins =>
      match act (t_kind t) (outputs t) (tmp_ins ins) with
      | None => mkRun (remove_outputs t st) (t_label t :: rn_log rn) (t_label t :: rn_failed rn)
      | Some news =>
          let st1 := fold_left (move_output rk t) news (set_meta st (t_label t)) in
          let st2 := if cache_on then set_cache st1 (t_label t) rk (current_outs t st1) else st1 in
          mkRun st2 (t_label t :: rn_log rn) (rn_failed rn)
      end
  end.

(* buildTarget for everything but filegroups *)
Definition build_rule (cache_on : bool) (r : repo) (rn : run) (t : target) : run :=
  let st := rn_st rn in
  if negb (needs_build r st t) then rn                           (* "Unchanged": nothing is touched *)
  else
    match source_key r st t with
    | None => fail_run rn t (remove_outputs t st)                (* a source does not exist *)
    | Some sk =>
        let rk := ((t_defkey t, []), sk) in
        match (if cache_on then s_cache st (t_label t) rk else None) with
        | Some cached =>                                         (* retrieveArtifacts: "Cached" *)
            mkRun (set_meta (fold_left (restore_output rk t) cached st) (t_label t)) (rn_log rn) (rn_failed rn)
        | None => run_action cache_on r rn t rk
        end
    end.

(* ------------------------------------------------------------------------------------------ *)
(* targets with output_dirs: the two-phase check and the build that discovers outputs *)

Definition remove_outs (t : target) (outs : list str) (st : store) : store :=
  fold_left (fun s rel => set_out s rel None) (map (out_rel t) outs) st.

(* the e2e command `outdir` with $OUTS = outs: (what it leaves in _o, what it writes besides).
   cp (no -r) refuses a directory; with no $OUTS the redirection has no target. *)
Definition fixed : str := [102; 105; 120; 101; 100; 10]%N.     (* "fixed\n" *)
Definition od_cmd (outs : list str) (ins : list (str * node)) : option (list (str * node) * list (str * node)) :=
  match outs, all_files ins with
  | o :: _, Some _ => Some (copy_entries ins, [(o, File false fixed)])
  | _, _ => None
  end.

(* moveOutputs (build_step.go:698): every output of the target must be in the temporary directory *)
Fixpoint collect (tmp : list (str * node)) (outs : list str) : option (list (str * node)) :=
  match outs with
  | [] => Some []
  | o :: rest => match alookup o tmp, collect tmp rest with
                 | Some n, Some l => Some ((o, n) :: l)
                 | _, _ => None
                 end
  end.

(* build_step.go:317-419 for such a target whose outputs are `outs0` when the command starts:
   addOutputDirectoriesToBuildOutput moves the entries of _o to the root of the temporary directory (over
   what is there) and adds them to the target, StoreTargetMetadata records their names, moveOutputs wants
   every output - also those that came from the OLD metadata - and the record carries the post-build rule
   hash over all of them.  On error Build() removes the outputs the target has at that moment. *)
Definition run_od (r : repo) (rn : run) (t : target) (outs0 : list str) (sk : skey) : run :=
  let st := rn_st rn in
  match gather (read r st) (all_paths r t) with
  | None => fail_run rn t (remove_outs t outs0 st)
  | Some ins =>
      match od_cmd outs0 (tmp_ins ins) with
      | None => mkRun (remove_outs t outs0 st) (t_label t :: rn_log rn) (t_label t :: rn_failed rn)
      | Some (found, news) =>
          let outs1 := add_outs (map fst found) outs0 in
          let st0 := set_meta_dyn st (t_label t) (map fst found) in
          match collect (found ++ news) outs1 with
          | None => mkRun (remove_outs t outs1 st0) (t_label t :: rn_log rn) (t_label t :: rn_failed rn)
          | Some moved =>
              mkRun (fold_left (move_output ((t_defkey t, outs1), sk) t) moved st0) (t_label t :: rn_log rn) (rn_failed rn)
          end
      end
  end.

Definition rebuild_od (r : repo) (rn : run) (t : target) (outs0 : list str) : run :=
  match source_key r (rn_st rn) t with
  | None => fail_run rn t (remove_outs t outs0 (rn_st rn))
  | Some sk => run_od r rn t outs0 sk
  end.

(* the outputs the target has after addOutDirOutsFromMetadata (build_step.go:238) *)
Definition meta_outs (st : store) (t : target) : list str := add_outs (s_dyn st (t_label t)) (outputs t).

(* pre-build check passed, post-build check did not: "Rebuilding %s after post-build function", with the
   outputs of the old metadata still on the target *)
Definition stale_flow (r : repo) (st : store) (t : target) : bool :=
  could_modify t && negb (needs_build r st t) && needs_build_post r st t (meta_outs st t).

Definition build_rule_od (r : repo) (rn : run) (t : target) : run :=
  let st := rn_st rn in
  if needs_build r st t then rebuild_od r rn t (outputs t)
  else if needs_build_post r st t (meta_outs st t) then rebuild_od r rn t (meta_outs st t)
  else rn.                                                         (* "Unchanged" *)

Definition is_filegroup (t : target) : bool := match t_kind t with Filegroup => true | _ => false end.

Definition build_one (cache_on : bool) (r : repo) (rn : run) (t : target) : run :=
  if blocked r rn t then fail_run rn t (rn_st rn)
  else if is_filegroup t then build_filegroup r t rn
  else if could_modify t then build_rule_od r rn t
  else build_rule cache_on r rn t.

(* ------------------------------------------------------------------------------------------ *)
(* plz build <req> *)

(* the requested targets and everything they depend on; targets are listed dependencies first, so
   one pass from the end suffices *)
Definition closure (ts : list target) (req : list str) : list str :=
  fold_left (fun need t => if mem (t_label t) need then label_srcs (t_srcs t) ++ need else need) (rev ts) req.
Definition restrict (r : repo) (req : list str) : repo :=
  let need := closure (r_targets r) req in
  mkR (r_files r) (filter (fun t => mem (t_label t) need) (r_targets r)).

Definition build_all (cache_on : bool) (r : repo) (st : store) : run :=
  fold_left (build_one cache_on r) (r_targets r) (mkRun st [] []).

Definition plz_build (cache_on : bool) (r : repo) (req : list str) (st : store) : run :=
  build_all cache_on (restrict r req) st.

(* did some target of the run go through stale_flow?  (hypothesis of the theorems: executable) *)
Fixpoint stale_in (cache_on : bool) (r : repo) (ts : list target) (rn : run) : bool :=
  match ts with
  | [] => false
  | t :: rest => (negb (blocked r rn t) && stale_flow r (rn_st rn) t) || stale_in cache_on r rest (build_one cache_on r rn t)
  end.
Definition plz_stale (cache_on : bool) (r : repo) (req : list str) (st : store) : bool :=
  stale_in cache_on (restrict r req) (r_targets (restrict r req)) (mkRun st [] []).

(* observables *)
Definition run_ok (rn : run) : bool := match rn_failed rn with [] => true | _ => false end.
Definition is_genrule (t : target) : bool := match t_kind t with Genrule _ => true | _ => false end.
(* the action log is written by genrule commands only *)
Definition logged (r : repo) (rn : run) : list str :=
  filter (fun l => match find_target (r_targets r) l with Some t => is_genrule t | None => false end) (rn_log rn).
Definition out_of (st : store) (t : target) (o : str) : option node := option_map e_node (s_outs st (out_rel t o)).
Definition outs_of (st : store) (t : target) : list (str * option node) :=
  map (fun o => (o, out_of st t o)) (outputs t).
(* all outputs, the discovered ones included: for a target with output_dirs what its metadata names *)
Definition full_outs (st : store) (t : target) : list str := if could_modify t then meta_outs st t else outputs t.
Definition all_outs_of (st : store) (t : target) : list (str * option node) :=
  map (fun o => (o, out_of st t o)) (full_outs st t).
(* what a build of t from its declared outputs moves to plz-out, as a function of $SRCS: name -> tree *)
Definition result (t : target) (ins : list (str * node)) : option (list (str * node)) :=
  if could_modify t then
    match od_cmd (outputs t) ins with
    | Some (found, news) => collect (found ++ news) (add_outs (map fst found) (outputs t))
    | None => None
    end
  else act (t_kind t) (outputs t) ins.

(* ------------------------------------------------------------------------------------------ *)
(* well-formed repositories (hypotheses of the theorems; executable) *)

Fixpoint nodup_str (l : list str) : bool :=
  match l with [] => true | x :: r => negb (mem x r) && nodup_str r end.

(* every label a target refers to is defined earlier in the list *)
Fixpoint topo (seen : list str) (ts : list target) : bool :=
  match ts with
  | [] => true
  | t :: r => forallb (fun l => mem l seen) (label_srcs (t_srcs t)) && topo (t_label t :: seen) r
  end.

Definition has_outs (t : target) : bool :=
  is_filegroup t || match t_outs t with [] => false | _ => true end.

(* the names an output_dirs target finds in _o: the base names of its sources - a function of the paths *)
Definition found_names (r : repo) (t : target) : list str :=
  fold_left (fun acc p => add_out (basename (snd p)) acc) (all_paths r t) [].
(* every path the build of t may write: declared outputs, and what it may discover *)
Definition claimed (r : repo) (t : target) : list str :=
  out_rels t ++ (if could_modify t then map (out_rel t) (found_names r t) else []).
(* nobody reads the outputs of an output_dirs target (the reader would see the discovered ones too) *)
Definition no_od_deps (r : repo) (t : target) : bool :=
  forallb (fun l => match find_target (r_targets r) l with Some d => negb (could_modify d) | None => true end)
          (label_srcs (t_srcs t)).

(* unique labels, dependencies first, no two targets write the same path, rules declare an output *)
Definition wf_repo (r : repo) : bool :=
  nodup_str (map t_label (r_targets r))
  && topo [] (r_targets r)
  && nodup_str (flat_map (claimed r) (r_targets r))
  && forallb has_outs (r_targets r)
  && forallb (no_od_deps r) (r_targets r).

(* no two sources of a target land on the same temporary path (so IterSources drops nothing) *)
Definition distinct_srcs (r : repo) : bool :=
  forallb (fun t => nodup_str (map snd (all_paths r t))) (r_targets r).

(* ------------------------------------------------------------------------------------------ *)
(* histories and correspondence cases *)

(* one `plz build`, optionally preceded by rm -rf plz-out, with what the real plz did *)
Record step := mkStep {
  sp_wipe : bool;
  sp_cache : bool;
  sp_repo : repo;
  sp_req : list str;
  ob_ok : bool;                                        (* exit status 0 *)
  ob_exec : list str;                                  (* action log, any order *)
  ob_outs : list (str * list (str * option node));     (* label -> out -> tree in plz-out *)
  ob_dyn : list (str * option (list str))              (* label -> OutputDirOuts of its metadata file, if any *)
}.

Definition do_step (st : store) (sp : step) : run :=
  plz_build (sp_cache sp) (sp_repo sp) (sp_req sp) (if sp_wipe sp then wipe st else st).

(* History: a whole history with what plz did.  RuleKeys: for the targets of a history, the model's rule key
   and the pre-build rule hash `plz hash --detailed` printed for it. *)
Inductive case :=
| History (steps : list step)
| RuleKeys (obs : list (str * str)).

Definition subset (a b : list str) : bool := forallb (fun x => mem x b) a.
Definition onode_eqb := option_eqb node_eqb.

Definition check_outs (r : repo) (st : store) (obs : list (str * list (str * option node))) : bool :=
  forallb (fun lo =>
             match find_target (r_targets r) (fst lo) with
             | None => false
             | Some t => forallb (fun on => onode_eqb (out_of st t (fst on)) (snd on)) (snd lo)
                         && (could_modify t || Nat.eqb (length (snd lo)) (length (outputs t)))
                         && subset (outputs t) (map fst (snd lo))
                         && subset (meta_outs st t) (map fst (snd lo))
             end) obs.

Definition check_dyn (st : store) (obs : list (str * option (list str))) : bool :=
  forallb (fun ld => match snd ld with
                     | Some d => s_meta st (fst ld) && list_eqb str_eqb (s_dyn st (fst ld)) d
                     | None => negb (s_meta st (fst ld))
                     end) obs.

Definition check_step (st : store) (sp : step) : bool * store :=
  let rn := do_step st sp in
  let ex := logged (sp_repo sp) rn in
  (Bool.eqb (run_ok rn) (ob_ok sp)
   && subset ex (ob_exec sp) && subset (ob_exec sp) ex
   && Nat.eqb (length ex) (length (ob_exec sp))
   && (negb (ob_ok sp) || check_outs (sp_repo sp) (rn_st rn) (ob_outs sp))
   && check_dyn (rn_st rn) (ob_dyn sp),
   rn_st rn).

Fixpoint check_steps (st : store) (l : list step) : bool :=
  match l with
  | [] => true
  | sp :: r => let (ok, st') := check_step st sp in ok && check_steps st' r
  end.

(* the rule key and the real rule hash induce the same partition of the observed targets *)
Definition check_keys (obs : list (str * str)) : bool :=
  forallb (fun a => forallb (fun b => Bool.eqb (str_eqb (fst a) (fst b)) (str_eqb (snd a) (snd b))) obs) obs.

Definition check (c : case) : bool :=
  match c with
  | History l => check_steps empty_store l
  | RuleKeys obs => check_keys obs
  end.
