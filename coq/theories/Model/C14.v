(* C14 - cleaning of the directory cache.  Executable model of dirCache.clean, shouldClean,
   markDir/isMarked (src/cache/dir_cache.go).  No proofs here.

   The cache directory is given as the listing godirwalk produces: one item per file or
   directory, parents before children, siblings in byte order.  A path is the list of its
   components, starting with the base name of the cache directory itself (fs.Walk also calls
   the callback on the root).  Sizes are the lstat sizes, access times the Unix seconds that
   os.Stat reports (both are inputs: the harness reads them from the file system).

   Not modelled: I/O errors other than the failure of os.Rename on an occupied target, uint64
   and int64 wrap-around, symbolic links, changes made by other goroutines or processes while
   clean runs (the second isMarked test of the loop is modelled, the marks do not change),
   sort.Slice for more than 12 entries (the theorems hold for any permutation; the executable
   model uses the insertion sort Go uses up to 12 elements). *)
From PlzV Require Import Base.Harness Gen.CacheNames.

Definition path := list str.

Record item := mkItem { i_path : path; i_dir : bool; i_size : N; i_atime : Z }.

(* type cacheEntry struct { Path string; Size uint64; Atime int64 } *)
Record entry := mkEntry { e_path : path; e_size : N; e_atime : Z }.

Definition path_eqb : path -> path -> bool := list_eqb str_eqb.

Fixpoint is_prefix (p q : path) : bool :=
  match p, q with
  | [], _ => true
  | x :: p', y :: q' => str_eqb x y && is_prefix p' q'
  | _ :: _, [] => false
  end.

Definition proper_prefix (p q : path) : bool := is_prefix p q && negb (path_eqb p q).

(* filepath.Base of a non-empty path *)
Definition base (p : path) : str := last p [].

(* ---- shouldClean ------------------------------------------------------------------------- *)

Definition has_suffix (x suf : str) : bool :=
  (length suf <=? length x)%nat && str_eqb (skipn (length x - length suf) x) suf.

Definition trim_suffix (x suf : str) : str :=
  if has_suffix x suf then firstn (length x - length suf) x else x.

(* ((len(name) == 28 || len(name) == 29) && name[27] == '=') || ((len(name) == 44 || ...
   the constants come from Gen/CacheNames.v *)
Definition key_shaped (name : str) : bool :=
  existsb (fun sh : list N * N * N =>
             let '(lens, idx, ch) := sh in
             existsb (N.eqb (N.of_nat (length name))) lens
             && N.eqb (nth (N.to_nat idx) name 0%N) ch) key_shapes.

(* cache.Suffix: ".tar.gz" when compressing, "" otherwise (newDirCache) *)
Definition suffix_of (compress : bool) : str := if compress then s compressed_suffix else [].

Definition should_clean (compress : bool) (name : str) (isdir : bool) : bool :=
  if Bool.eqb compress isdir then false
  else if negb (has_suffix name (suffix_of compress)) then false
  else key_shaped (trim_suffix name (suffix_of compress)).

(* ---- markDir / isMarked ------------------------------------------------------------------ *)

(* path + "=" on the string form of a path: the suffix goes on the last component *)
Fixpoint append_last (p : path) (x : str) : path :=
  match p with
  | [] => []
  | [b] => [b ++ x]
  | c :: r => c :: append_last r x
  end.

(* the map `added`; the first binding of a key is the current one *)
Definition marks := list (path * N).

Definition mark_dir (m : marks) (p : path) (size : N) : marks :=
  (append_last p (s mark_suffix), size) :: (p, size) :: m.

Fixpoint is_marked (m : marks) (p : path) : option N :=
  match m with
  | [] => None
  | (q, sz) :: r => if path_eqb q p then Some sz else is_marked r p
  end.

(* the markDir calls the process has made, oldest first *)
Definition marks_of (calls : list (path * N)) : marks :=
  fold_left (fun m c => mark_dir m (fst c) (snd c)) calls [].

(* ---- the walk ---------------------------------------------------------------------------- *)

(* the callback returns filepath.SkipDir for a recognised name (marked or not) unless the
   cache is compressed *)
Definition skips (compress : bool) (i : item) : bool :=
  negb compress && should_clean compress (base (i_path i)) (i_dir i).

(* godirwalk descends into a directory unless the callback returned SkipDir for it: an item
   is visited iff no item strictly above it was skipped *)
Definition visited (compress : bool) (all : list item) (i : item) : bool :=
  negb (existsb (fun j => proper_prefix (i_path j) (i_path i) && skips compress j) all).

(* findSize: sum of the sizes of everything at or below the path *)
Definition find_size (all : list item) (p : path) : N :=
  fold_right (fun j acc => if is_prefix p (i_path j) then (i_size j + acc)%N else acc) 0%N all.

Definition recognised (compress : bool) (all : list item) (i : item) : bool :=
  visited compress all i && should_clean compress (base (i_path i)) (i_dir i).

(* entries (unmarked, in walk order) and totalSize *)
Fixpoint walk (compress : bool) (mk : marks) (all l : list item) : list entry * N :=
  match l with
  | [] => ([], 0%N)
  | i :: r =>
      let '(es, t) := walk compress mk all r in
      if recognised compress all i then
        match is_marked mk (i_path i) with
        | Some sz => (es, (sz + t)%N)
        | None => let sz := find_size all (i_path i) in
                  (mkEntry (i_path i) sz (i_atime i) :: es, (sz + t)%N)
        end
      else (es, t)
  end.

(* ---- the sort ---------------------------------------------------------------------------- *)

Definition less (a b : entry) : bool :=
  let diff := (e_atime a - e_atime b)%Z in
  if (Z.ltb (- grace_period) diff && Z.ltb diff grace_period)%Z
  then N.ltb (e_size b) (e_size a)
  else Z.ltb (e_atime a) (e_atime b).

(* sort.Slice on at most 12 elements is insertionSortLessFunc:
     for i := a + 1; i < b; i++ { for j := i; j > a && less(j, j-1); j-- { swap(j, j-1) } }
   `rp` is the sorted prefix reversed (its head is the element left of the one moving). *)
Fixpoint ins (x : entry) (rp : list entry) : list entry :=
  match rp with
  | [] => [x]
  | y :: r => if less x y then y :: ins x r else x :: rp
  end.

Definition isort (l : list entry) : list entry := rev (fold_left (fun rp x => ins x rp) l []).

(* ---- the eviction loop ------------------------------------------------------------------- *)

(* os.Rename(entry.Path, entry.Path + "=") fails when the target exists and is a directory
   (Go reports EEXIST for any existing directory target) or when a directory would replace
   a file.  An entry is a directory exactly when the cache is not compressed. *)
Definition rename_blocked (compress : bool) (live : list item) (p' : path) : bool :=
  existsb (fun j => path_eqb (i_path j) p' && (negb compress || i_dir j)) live.

(* rename (which replaces an existing file at the target) followed by RemoveAll *)
Definition delete (live : list item) (p p' : path) : list item :=
  filter (fun j => negb (is_prefix p (i_path j)) && negb (is_prefix p' (i_path j))) live.

Record result := mkResult {
  r_live : list item;        (* what is left in the cache directory *)
  r_total : N;               (* the returned totalSize *)
  r_removed : list entry;    (* entries renamed and removed, in order *)
  r_kept : list entry        (* entries not removed: marked, rename failed, or not reached *)
}.

Fixpoint loop (compress : bool) (mk : marks) (low : N) (es : list entry) (live : list item) (total : N) : result :=
  match es with
  | [] => mkResult live total [] []
  | e :: r =>
      match is_marked mk (e_path e) with
      | Some _ => let x := loop compress mk low r live total in
                  mkResult (r_live x) (r_total x) (r_removed x) (e :: r_kept x)
      | None =>
          let p' := append_last (e_path e) (s rename_suffix) in
          if rename_blocked compress live p' then
            let x := loop compress mk low r live total in
            mkResult (r_live x) (r_total x) (r_removed x) (e :: r_kept x)
          else
            let live' := delete live (e_path e) p' in
            let total' := (total - e_size e)%N in
            if N.ltb total' low then mkResult live' total' [e] r
            else let x := loop compress mk low r live' total' in
                 mkResult (r_live x) (r_total x) (e :: r_removed x) (r_kept x)
      end
  end.

Record state := mkState {
  st_compress : bool;
  st_items : list item;
  st_calls : list (path * N);   (* markDir(path, size) calls so far *)
  st_high : N;
  st_low : N
}.

Definition clean_with (sorter : list entry -> list entry) (st : state) : result :=
  let mk := marks_of (st_calls st) in
  let '(es, total) := walk (st_compress st) mk (st_items st) (st_items st) in
  if N.ltb total (st_high st) then mkResult (st_items st) total [] es
  else loop (st_compress st) mk (st_low st) (sorter es) (st_items st) total.

Definition clean : state -> result := clean_with isort.

(* ---- what the property speaks about -------------------------------------------------------- *)

(* where Store assembles the entry that will be renamed to p:
   getFullPath(target, key, "", "=") = <key> + "=" + cache.Suffix *)
Fixpoint tmp_path (compress : bool) (p : path) : path :=
  match p with
  | [] => []
  | [b] => [trim_suffix b (suffix_of compress) ++ s tmp_suffix ++ suffix_of compress]
  | c :: r => c :: tmp_path compress r
  end.

(* ---- correspondence cases ---------------------------------------------------------------- *)
Inductive case :=
| CName (compress : bool) (name : str) (isdir : bool) (observed : bool)
| CClean (st : state) (observed_total : N) (observed_listing : list path).

Definition check (c : case) : bool :=
  match c with
  | CName compress name isdir obs => Bool.eqb (should_clean compress name isdir) obs
  | CClean st tot listing =>
      let r := clean st in
      N.eqb (r_total r) tot && list_eqb path_eqb (map i_path (r_live r)) listing
  end.
