(* C14 - cleaning of the directory cache.  Executable model of dirCache.clean, shouldClean,
   markDir/isMarked (src/cache/dir_cache.go).  No proofs here.

   The cache directory is given as the listing godirwalk produces: one item per file or
   directory, parents before children, siblings in byte order.  A path is the list of its
   components, starting with the base name of the cache directory itself (fs.Walk also calls
   the callback on the root).  Sizes are the lstat sizes, access times the Unix seconds that
   os.Stat reports (both are inputs: the harness reads them from the file system).

   Not modelled: I/O errors other than the failure of os.Rename on an occupied target, uint64
   and int64 wrap-around, symbolic links, changes made by other goroutines or processes while
   clean runs other than markDir calls between two iterations of the eviction loop (see `run` below;
   in `clean` itself the marks do not change) and the statements of a Store of the process between two
   steps of clean (see `prun` below),
   sort.Slice for more than 12 entries (the theorems hold for any permutation; the executable
   model uses the insertion sort Go uses up to 12 elements). *)
From PlzV Require Import Base.Harness Gen.CacheNames.
From Coq Require Import Permutation.

Definition path := list str.

Record item := mkItem { i_path : path; i_dir : bool; i_size : N; i_atime : Z }.

(* type cacheEntry struct { Path string; Size uint64; Atime int64 } *)
Record entry := mkEntry { e_path : path; e_size : N; e_atime : Z }.

Definition path_eqb : path -> path -> bool := list_eqb str_eqb.

Fixpoint is_prefix (p q : path) : bool :=
  match p, q with
  | [], _ => true
  | x :: p', y :: q' => str_eqb x y && is_prefix p' q'
  | _ :: _, [] => false
  end.

Definition proper_prefix (p q : path) : bool := is_prefix p q && negb (path_eqb p q).

(* filepath.Base of a non-empty path *)
Definition base (p : path) : str := last p [].

(* ---- shouldClean ------------------------------------------------------------------------- *)

Definition has_suffix (x suf : str) : bool :=
  (length suf <=? length x)%nat && str_eqb (skipn (length x - length suf) x) suf.

Definition trim_suffix (x suf : str) : str :=
  if has_suffix x suf then firstn (length x - length suf) x else x.

(* ((len(name) == 28 || len(name) == 29) && name[27] == '=') || ((len(name) == 44 || ...
   the constants come from Gen/CacheNames.v *)
Definition key_shaped (name : str) : bool :=
  existsb (fun sh : list N * N * N =>
             let '(lens, idx, ch) := sh in
             existsb (N.eqb (N.of_nat (length name))) lens
             && N.eqb (nth (N.to_nat idx) name 0%N) ch) key_shapes.

(* cache.Suffix: ".tar.gz" when compressing, "" otherwise (newDirCache) *)
Definition suffix_of (compress : bool) : str := if compress then s compressed_suffix else [].

Definition should_clean (compress : bool) (name : str) (isdir : bool) : bool :=
  if Bool.eqb compress isdir then false
  else if negb (has_suffix name (suffix_of compress)) then false
  else key_shaped (trim_suffix name (suffix_of compress)).

(* ---- markDir / isMarked ------------------------------------------------------------------ *)

(* path + "=" on the string form of a path: the suffix goes on the last component *)
Fixpoint append_last (p : path) (x : str) : path :=
  match p with
  | [] => []
  | [b] => [b ++ x]
  | c :: r => c :: append_last r x
  end.

(* the map `added`; the first binding of a key is the current one *)
Definition marks := list (path * N).

Definition mark_dir (m : marks) (p : path) (size : N) : marks :=
  (append_last p (s mark_suffix), size) :: (p, size) :: m.

Fixpoint is_marked (m : marks) (p : path) : option N :=
  match m with
  | [] => None
  | (q, sz) :: r => if path_eqb q p then Some sz else is_marked r p
  end.

(* the markDir calls the process has made, oldest first *)
Definition marks_of (calls : list (path * N)) : marks :=
  fold_left (fun m c => mark_dir m (fst c) (snd c)) calls [].

(* ---- the walk ---------------------------------------------------------------------------- *)

(* the callback returns filepath.SkipDir for a recognised name (marked or not) unless the
   cache is compressed *)
Definition skips (compress : bool) (i : item) : bool :=
  negb compress && should_clean compress (base (i_path i)) (i_dir i).

(* godirwalk descends into a directory unless the callback returned SkipDir for it: an item
   is visited iff no item strictly above it was skipped *)
Definition visited (compress : bool) (all : list item) (i : item) : bool :=
  negb (existsb (fun j => proper_prefix (i_path j) (i_path i) && skips compress j) all).

(* findSize: sum of the sizes of everything at or below the path *)
Definition find_size (all : list item) (p : path) : N :=
  fold_right (fun j acc => if is_prefix p (i_path j) then (i_size j + acc)%N else acc) 0%N all.

Definition recognised (compress : bool) (all : list item) (i : item) : bool :=
  visited compress all i && should_clean compress (base (i_path i)) (i_dir i).

(* entries (unmarked, in walk order) and totalSize *)
Fixpoint walk (compress : bool) (mk : marks) (all l : list item) : list entry * N :=
  match l with
  | [] => ([], 0%N)
  | i :: r =>
      let '(es, t) := walk compress mk all r in
      if recognised compress all i then
        match is_marked mk (i_path i) with
        | Some sz => (es, (sz + t)%N)
        | None => let sz := find_size all (i_path i) in
                  (mkEntry (i_path i) sz (i_atime i) :: es, (sz + t)%N)
        end
      else (es, t)
  end.

(* ---- the sort ---------------------------------------------------------------------------- *)

Definition less (a b : entry) : bool :=
  let diff := (e_atime a - e_atime b)%Z in
  if (Z.ltb (- grace_period) diff && Z.ltb diff grace_period)%Z
  then N.ltb (e_size b) (e_size a)
  else Z.ltb (e_atime a) (e_atime b).

(* sort.Slice on at most 12 elements is insertionSortLessFunc:
     for i := a + 1; i < b; i++ { for j := i; j > a && less(j, j-1); j-- { swap(j, j-1) } }
   `rp` is the sorted prefix reversed (its head is the element left of the one moving). *)
Fixpoint ins (x : entry) (rp : list entry) : list entry :=
  match rp with
  | [] => [x]
  | y :: r => if less x y then y :: ins x r else x :: rp
  end.

Definition isort (l : list entry) : list entry := rev (fold_left (fun rp x => ins x rp) l []).

(* ---- the eviction loop ------------------------------------------------------------------- *)

(* os.Rename(entry.Path, entry.Path + "=") fails when the target exists and is a directory
   (Go reports EEXIST for any existing directory target) or when a directory would replace
   a file.  An entry is a directory exactly when the cache is not compressed. *)
Definition rename_blocked (compress : bool) (live : list item) (p' : path) : bool :=
  existsb (fun j => path_eqb (i_path j) p' && (negb compress || i_dir j)) live.

(* rename (which replaces an existing file at the target) followed by RemoveAll *)
Definition delete (live : list item) (p p' : path) : list item :=
  filter (fun j => negb (is_prefix p (i_path j)) && negb (is_prefix p' (i_path j))) live.

Record result := mkResult {
  r_live : list item;        (* what is left in the cache directory *)
  r_total : N;               (* the returned totalSize *)
  r_removed : list entry;    (* entries renamed and removed, in order *)
  r_kept : list entry        (* entries not removed: marked, rename failed, or not reached *)
}.

Fixpoint loop (compress : bool) (mk : marks) (low : N) (es : list entry) (live : list item) (total : N) : result :=
  match es with
  | [] => mkResult live total [] []
  | e :: r =>
      match is_marked mk (e_path e) with
      | Some _ => let x := loop compress mk low r live total in
                  mkResult (r_live x) (r_total x) (r_removed x) (e :: r_kept x)
      | None =>
          let p' := append_last (e_path e) (s rename_suffix) in
          if rename_blocked compress live p' then
            let x := loop compress mk low r live total in
            mkResult (r_live x) (r_total x) (r_removed x) (e :: r_kept x)
          else
            let live' := delete live (e_path e) p' in
            let total' := (total - e_size e)%N in
            if N.ltb total' low then mkResult live' total' [e] r
            else let x := loop compress mk low r live' total' in
                 mkResult (r_live x) (r_total x) (e :: r_removed x) (r_kept x)
      end
  end.

Record state := mkState {
  st_compress : bool;
  st_items : list item;
  st_calls : list (path * N);   (* markDir(path, size) calls so far *)
  st_high : N;
  st_low : N
}.

Definition clean_with (sorter : list entry -> list entry) (st : state) : result :=
  let mk := marks_of (st_calls st) in
  let '(es, total) := walk (st_compress st) mk (st_items st) (st_items st) in
  if N.ltb total (st_high st) then mkResult (st_items st) total [] es
  else loop (st_compress st) mk (st_low st) (sorter es) (st_items st) total.

Definition clean : state -> result := clean_with isort.

(* ---- what the property speaks about -------------------------------------------------------- *)

(* where Store assembles the entry that will be renamed to p:
   getFullPath(target, key, "", "=") = <key> + "=" + cache.Suffix *)
Fixpoint tmp_path (compress : bool) (p : path) : path :=
  match p with
  | [] => []
  | [b] => [trim_suffix b (suffix_of compress) ++ s tmp_suffix ++ suffix_of compress]
  | c :: r => c :: tmp_path compress r
  end.

(* the name getPath produces: a key of the first accepted length of a shape (28 or 44), then
   the suffix *)
Definition final_key (k : str) : bool :=
  existsb (fun sh : list N * N * N =>
             let '(lens, idx, ch) := sh in
             match lens with l0 :: _ => N.eqb (N.of_nat (length k)) l0 | [] => false end
             && N.eqb (nth (N.to_nat idx) k 0%N) ch) key_shapes.

Definition entry_path (compress : bool) (p : path) : bool :=
  has_suffix (base p) (suffix_of compress) && final_key (trim_suffix (base p) (suffix_of compress)).

(* the paths the current process has stored or retrieved, and where it is storing them *)
Definition protected_paths (st : state) : list path :=
  flat_map (fun c => [fst c; tmp_path (st_compress st) (fst c)]) (st_calls st).

(* ---- well-formed states: a listing of a directory tree, marks made by Store/Retrieve ---- *)

(* every directory above an item is in the listing, as a directory *)
Definition dirs_present (its : list item) : bool :=
  forallb (fun i =>
    forallb (fun n => existsb (fun j => path_eqb (i_path j) (firstn n (i_path i)) && i_dir j) its)
            (seq 1 (length (i_path i) - 1))) its.

(* nothing lies below a file *)
Definition files_are_leaves (its : list item) : bool :=
  forallb (fun j => i_dir j || forallb (fun i => negb (proper_prefix (i_path j) (i_path i))) its) its.

(* markDir is only called with results of getPath *)
Definition calls_ok (st : state) : bool :=
  forallb (fun c => entry_path (st_compress st) (fst c)) (st_calls st).

(* what is at a protected path is an entry: a directory when uncompressed, a file when compressed *)
Definition kind_ok (st : state) : bool :=
  forallb (fun i => if existsb (path_eqb (i_path i)) (protected_paths st)
                    then Bool.eqb (i_dir i) (negb (st_compress st)) else true) (st_items st).

Definition wf (st : state) : bool :=
  dirs_present (st_items st) && files_are_leaves (st_items st) && calls_ok st && kind_ok st.

(* ---- the known defect classes, as executable classifiers ---- *)

(* a directory named like an entry lies above a protected path (uncompressed cache) *)
Definition d_ancestor (st : state) : bool :=
  negb (st_compress st) &&
  existsb (fun a => should_clean false (base (i_path a)) (i_dir a)
                    && existsb (proper_prefix (i_path a)) (protected_paths st)) (st_items st).

(* the temporary file of a Store in progress exists (compressed cache): markDir marks
   <key>.tar.gz and <key>.tar.gz=, Store writes <key>=.tar.gz *)
Definition d_tmp (st : state) : bool :=
  st_compress st &&
  existsb (fun i => existsb (fun c => is_prefix (tmp_path true (fst c)) (i_path i)) (st_calls st)) (st_items st).

(* the rename target <entry>= of something named like an entry is occupied *)
Definition d_rename (st : state) : bool :=
  existsb (fun a => should_clean (st_compress st) (base (i_path a)) (i_dir a)
                    && rename_blocked (st_compress st) (st_items st) (append_last (i_path a) (s rename_suffix)))
          (st_items st).

Inductive defect := KeyShapedAncestor | CompressedTmpUnmarked | RenameTargetOccupied.

Definition defect_class (st : state) : option defect :=
  if d_ancestor st then Some KeyShapedAncestor
  else if d_tmp st then Some CompressedTmpUnmarked
  else if d_rename st then Some RenameTargetOccupied
  else None.

(* what the removal of entry e takes away: everything at or below its path and, in a
   compressed cache, the file that os.Rename replaced *)
Definition deleted_by (compress : bool) (e : entry) (i : item) : Prop :=
  is_prefix (e_path e) (i_path i) = true
  \/ (compress = true /\ i_dir i = false /\ i_path i = append_last (e_path e) (s rename_suffix)).

Definition sum_size (es : list entry) : N := fold_right (fun e a => (e_size e + a)%N) 0%N es.

(* ---- the three guarantees of the property, for one run of clean ---- *)

Definition entries_of (st : state) : list entry :=
  fst (walk (st_compress st) (marks_of (st_calls st)) (st_items st) (st_items st)).
Definition size_of (st : state) : N :=
  snd (walk (st_compress st) (marks_of (st_calls st)) (st_items st) (st_items st)).

(* i is (part of) an entry stored or retrieved by the current process *)
Definition protected (st : state) (i : item) : Prop :=
  exists q, In q (protected_paths st) /\ is_prefix q (i_path i) = true.

(* (1) cleaning never removes an entry stored or retrieved by the current process *)
Definition never_removes_protected (sorter : list entry -> list entry) (st : state) : Prop :=
  forall i, In i (st_items st) -> protected st i -> In i (r_live (clean_with sorter st)).

(* (2) and never part of an entry: what is removed are entries the walk recognised (unmarked, named
   like an entry, of the right kind, not inside another recognised entry), each with everything
   below it; besides them only a file that a rename replaced disappears; nothing appears *)
Definition only_whole_entries (sorter : list entry -> list entry) (st : state) : Prop :=
  let r := clean_with sorter st in
  let c := st_compress st in
  (forall e, In e (r_removed r) -> In e (entries_of st))
  /\ (forall e, In e (entries_of st) ->
        exists a, In a (st_items st) /\ recognised c (st_items st) a = true
                  /\ is_marked (marks_of (st_calls st)) (i_path a) = None
                  /\ e = mkEntry (i_path a) (find_size (st_items st) (i_path a)) (i_atime a))
  /\ (forall i, In i (r_live r) -> In i (st_items st))
  /\ (forall i, In i (st_items st) ->
        (~ In i (r_live r) <-> exists e, In e (r_removed r) /\ deleted_by c e i))
  /\ (forall a b, In a (st_items st) -> In b (st_items st) ->
        recognised c (st_items st) a = true -> recognised c (st_items st) b = true ->
        proper_prefix (i_path a) (i_path b) = false).

(* the returned size and the split of the entries into removed and remaining ones *)
Definition accounts (sorter : list entry -> list entry) (st : state) : Prop :=
  let r := clean_with sorter st in
  Permutation (entries_of st) (r_removed r ++ r_kept r)
  /\ (r_total r + sum_size (r_removed r) = size_of st)%N
  /\ (sum_size (r_kept r) <= r_total r)%N
  /\ ((size_of st < st_high st)%N -> r_removed r = [] /\ r_live r = st_items st).

(* (3) when it finishes (it starts at the high water mark), the unmarked entries that remain are
   smaller than the low water mark in total, or none remains *)
Definition meets_bound (sorter : list entry -> list entry) (st : state) : Prop :=
  let r := clean_with sorter st in
  (st_high st <= size_of st)%N -> (sum_size (r_kept r) < st_low st)%N \/ r_kept r = [].

(* ---- clean interleaved with the process that owns the cache --------------------------------- *)

(* clean runs in its own goroutine (newDirCache: `go cache.clean(high, low)`).  The walk has produced
   the queue of unmarked entries; while the eviction loop works through it, the process goes on
   calling Retrieve and Store, each of which starts with markDir.  The loop therefore tests isMarked
   again for every entry.  Granularity of the model: one iteration of the loop is one step, a
   markDir call is one step, and they interleave arbitrarily (a list of labels).  What Store does to
   the file system after its markDir is not modelled, nor a markDir that falls between the isMarked
   test and the os.Rename of the same iteration. *)

Inductive flow := FNext | FContinue | FBreak.

(* one pass through the body of `for _, entry := range entries`, statement by statement as gotrans
   lists them in Gen.CacheNames.evict_body; `removed`: the entry has been renamed and removed *)
Fixpoint exec_body (compress : bool) (mk : marks) (low : N) (e : entry) (body : list evict_step)
                   (live : list item) (total : N) (removed : bool) : flow * list item * N * bool :=
  match body with
  | [] => (FNext, live, total, removed)
  | EvSkipIfMarked :: b =>
      match is_marked mk (e_path e) with
      | Some _ => (FContinue, live, total, removed)
      | None => exec_body compress mk low e b live total removed
      end
  | EvEvictOrSkip :: b =>
      let p' := append_last (e_path e) (s rename_suffix) in
      if rename_blocked compress live p' then (FContinue, live, total, removed)
      else exec_body compress mk low e b (delete live (e_path e) p') total true
  | EvSubtractSize :: b => exec_body compress mk low e b live (total - e_size e)%N removed
  | EvBreakBelowLow :: b =>
      if N.ltb total low then (FBreak, live, total, removed)
      else exec_body compress mk low e b live total removed
  end.

Inductive label :=
| LMark (p : path) (size : N)   (* the process calls markDir(p, size): Retrieve, Store *)
| LIter.                        (* clean runs the loop body for the next queued entry *)

Record cstate := mkC {
  cs_calls : list (path * N);   (* markDir calls so far, oldest first *)
  cs_queue : list entry;        (* entries the loop has not reached yet *)
  cs_live : list item;          (* what is in the cache directory *)
  cs_total : N;                 (* totalSize *)
  cs_removed : list entry;      (* entries renamed and removed, newest first *)
  cs_kept : list entry          (* entries skipped or not reached, newest first *)
}.

Definition do_label (compress : bool) (low : N) (x : cstate) (lb : label) : cstate :=
  match lb with
  | LMark p sz => mkC (cs_calls x ++ [(p, sz)]) (cs_queue x) (cs_live x) (cs_total x) (cs_removed x) (cs_kept x)
  | LIter =>
      match cs_queue x with
      | [] => x
      | e :: r =>
          let '(fl, live', total', rem) :=
            exec_body compress (marks_of (cs_calls x)) low e evict_body (cs_live x) (cs_total x) false in
          let kept' := if rem then cs_kept x else e :: cs_kept x in
          mkC (cs_calls x) (match fl with FBreak => [] | _ => r end) live' total'
              (if rem then e :: cs_removed x else cs_removed x)
              (match fl with FBreak => rev r ++ kept' | _ => kept' end)
      end
  end.

Definition run (compress : bool) (low : N) (x : cstate) (ls : list label) : cstate := fold_left (do_label compress low) ls x.

(* the state after the walk, the test against the high water mark and the sort *)
Definition start (sorter : list entry -> list entry) (st : state) : cstate :=
  if N.ltb (size_of st) (st_high st)
  then mkC (st_calls st) [] (st_items st) (size_of st) [] (rev (entries_of st))
  else mkC (st_calls st) (sorter (entries_of st)) (st_items st) (size_of st) [] [].

(* the markDir calls among the labels *)
Definition label_calls (ls : list label) : list (path * N) :=
  flat_map (fun lb => match lb with LMark p sz => [(p, sz)] | LIter => [] end) ls.

Definition with_calls (st : state) (calls : list (path * N)) : state :=
  mkState (st_compress st) (st_items st) calls (st_high st) (st_low st).

(* lazy bounded search (vm_compute is strict: no existsb here): f j for some j in [k, k+n) *)
Fixpoint some_from (f : nat -> bool) (k n : nat) : bool :=
  match n with
  | O => false
  | S n' => if f k then true else some_from f (S k) n'
  end.

(* ---- a Store of the process while clean runs ---------------------------------------------------

   Store(target, key, files) in an uncompressed cache, statement by statement as gotrans lists them in
   Gen.CacheNames.store_body / store_files_body, one output = one plain file directly inside the entry.
   storeFile is written out by hand: ensureStoreReady (MkdirAll of the temporary directory, RemoveAll of
   the file) and RecursiveLink (which, falling back to a copy, creates missing directories again).
   Not modelled: outputs that are directories or lie in sub-directories, I/O errors other than MkdirAll
   hitting a file and os.Rename hitting an existing target, more than one Store at a time, the
   compressed cache (storeCompressed). *)

Inductive sop :=
| OMark (sz : N)                 (* cache.markDir(cacheDir, sz) *)
| ORemoveOld                     (* fs.RemoveAll(cacheDir) *)
| OPrepare (name : str)          (* storeFile: cache.ensureStoreReady(tmpDir/name) *)
| OLink (name : str) (sz : N)    (* storeFile: fs.RecursiveLink(out, tmpDir/name) *)
| ORename.                       (* os.Rename(tmpDir, cacheDir) *)

Definition sum_files (files : list (str * N)) : N := fold_right (fun f a => (snd f + a)%N) 0%N files.

Definition store_file_ops (f : str * N) : list sop := [OPrepare (fst f); OLink (fst f) (snd f)].

Definition store_files_ops (sfb : list store_files_step) (files : list (str * N)) : list sop :=
  flat_map (fun st => match st with
                      | SfStoreEach => flat_map store_file_ops files
                      | SfMarkTotal => [OMark (sum_files files)]
                      end) sfb.

Definition store_ops_with (sb : list store_step) (sfb : list store_files_step) (files : list (str * N)) : list sop :=
  flat_map (fun st => match st with
                      | StMarkEarly => [OMark 0]
                      | StRemoveOld => [ORemoveOld]
                      | StStoreFiles => store_files_ops sfb files
                      | StRenameIntoPlace => [ORename]
                      end) sb.

(* the Store that is in the source *)
Definition store_ops : list (str * N) -> list sop := store_ops_with store_body store_files_body.

Definition has_path (live : list item) (q : path) : bool := existsb (fun j => path_eqb (i_path j) q) live.

(* os.MkdirAll(pre/rest): every missing directory from pre downwards is created *)
Fixpoint mkdirs_from (pre rest : path) (live : list item) : list item :=
  match rest with
  | [] => live
  | x :: r => let d := pre ++ [x] in
              mkdirs_from d r (if has_path live d then live else live ++ [mkItem d true 0 0])
  end.

Definition mkdirs (live : list item) (q : path) : list item := mkdirs_from [] q live.

(* MkdirAll(q) fails when a file lies at or above q *)
Definition file_above (live : list item) (q : path) : bool :=
  existsb (fun j => negb (i_dir j) && is_prefix (i_path j) q) live.

Definition remove_under (live : list item) (q : path) : list item :=
  filter (fun j => negb (is_prefix q (i_path j))) live.

(* os.Rename(from, to) of a directory: what was at from/x is at to/x *)
Definition reroot (from to q : path) : path :=
  if is_prefix from q then to ++ skipn (length from) q else q.

Definition set_live (x : cstate) (live : list item) : cstate :=
  mkC (cs_calls x) (cs_queue x) live (cs_total x) (cs_removed x) (cs_kept x).

(* one statement of a Store of the entry p.  `owned`: the files Stores of this process have written and
   the process has not itself removed or replaced since, where they are now (a ghost, for the theorem) *)
Definition do_sop (compress : bool) (p : path) (x : cstate) (owned : list path) (o : sop) : cstate * list path :=
  let tmp := tmp_path compress p in
  match o with
  | OMark sz =>
      (mkC (cs_calls x ++ [(p, sz)]) (cs_queue x) (cs_live x) (cs_total x) (cs_removed x) (cs_kept x), owned)
  | ORemoveOld =>
      (set_live x (remove_under (cs_live x) p), filter (fun o => negb (is_prefix p o)) owned)
  | OPrepare name =>
      if file_above (cs_live x) tmp then (x, owned)
      else (set_live x (remove_under (mkdirs (cs_live x) tmp) (tmp ++ [name])),
            filter (fun o => negb (is_prefix (tmp ++ [name]) o)) owned)
  | OLink name sz =>
      if file_above (cs_live x) tmp then (x, owned)
      else (set_live x (remove_under (mkdirs (cs_live x) tmp) (tmp ++ [name]) ++ [mkItem (tmp ++ [name]) false sz 0]),
            (tmp ++ [name]) :: filter (fun o => negb (is_prefix (tmp ++ [name]) o)) owned)
  | ORename =>
      if has_path (cs_live x) p || negb (has_path (cs_live x) tmp) then (x, owned)
      else (set_live x (map (fun j => mkItem (reroot tmp p (i_path j)) (i_dir j) (i_size j) (i_atime j)) (cs_live x)),
            map (reroot tmp p) owned)
  end.

Record sprog := mkSP { sp_path : path; sp_ops : list sop }.   (* the Store in progress: what is left of it *)

Record pstate := mkP { ps_c : cstate; ps_store : option sprog; ps_owned : list path }.

Inductive plabel :=
| PMark (p : path) (size : N)               (* the process calls markDir(p, size): Retrieve *)
| PStore (p : path) (files : list (str * N)) (* the process calls Store for the entry p (ignored while another Store runs) *)
| PStoreStep                                (* the Store in progress executes its next statement *)
| PWalk                                     (* clean: the walk, the test against the high water mark, the sort *)
| PIter.                                    (* clean: the loop body for the next queued entry *)

Definition do_plabel (ops_of : list (str * N) -> list sop) (sorter : list entry -> list entry)
                     (compress : bool) (high low : N) (x : pstate) (lb : plabel) : pstate :=
  match lb with
  | PMark p sz => mkP (do_label compress low (ps_c x) (LMark p sz)) (ps_store x) (ps_owned x)
  | PIter => mkP (do_label compress low (ps_c x) LIter) (ps_store x) (ps_owned x)
  | PWalk => mkP (start sorter (mkState compress (cs_live (ps_c x)) (cs_calls (ps_c x)) high low)) (ps_store x) (ps_owned x)
  | PStore p files =>
      match ps_store x with
      | Some _ => x
      | None => mkP (ps_c x) (Some (mkSP p (ops_of files))) (ps_owned x)
      end
  | PStoreStep =>
      match ps_store x with
      | None => x
      | Some sp =>
          match sp_ops sp with
          | [] => mkP (ps_c x) None (ps_owned x)
          | o :: r => let '(c', ow') := do_sop compress (sp_path sp) (ps_c x) (ps_owned x) o in
                      mkP c' (Some (mkSP (sp_path sp) r)) ow'
          end
      end
  end.

Definition prun (ops_of : list (str * N) -> list sop) (sorter : list entry -> list entry)
                (compress : bool) (high low : N) (x : pstate) (ls : list plabel) : pstate :=
  fold_left (do_plabel ops_of sorter compress high low) ls x.

(* the process has just started: clean has not walked yet, no Store runs *)
Definition pinit (st : state) : pstate := mkP (mkC (st_calls st) [] (st_items st) 0 [] []) None [].

(* the paths the labels pass to markDir / Store *)
Definition plabel_paths (ls : list plabel) : list path :=
  flat_map (fun lb => match lb with PMark p _ => [p] | PStore p _ => [p] | _ => [] end) ls.

(* no directory above p is named like an entry *)
Definition clean_names (p : path) : bool := forallb (fun c => negb (should_clean false c true)) (removelast p).

Definition same_paths (a b : list path) : bool :=
  Nat.eqb (length a) (length b) && forallb (fun p => existsb (path_eqb p) b) a && forallb (fun p => existsb (path_eqb p) a) b.

(* ---- correspondence cases ---------------------------------------------------------------- *)
Inductive case :=
| CName (compress : bool) (name : str) (isdir : bool) (observed : bool)
| CClean (st : state) (observed_total : N) (observed_listing : list path)
(* clean ran concurrently with one markDir(p, size) of the process; the harness saw that between klo and
   khi iterations of the loop had started when the mark was set *)
| CRace (st : state) (klo khi : nat) (p : path) (size : N) (observed_total : N) (observed_listing : list path)
(* the real Store(p, files) was started on the cache st, stopped inside the RecursiveLink of file number
   `gate`, clean ran to its end (total and listing observed, the file being copied left out), the Store was
   let go and ran to its end (second listing).  Listings are compared as sets of paths. *)
| CStoring (st : state) (p : path) (files : list (str * N)) (gate : nat)
           (observed_total : N) (listing_after_clean listing_after_store : list path).

Definition check (c : case) : bool :=
  match c with
  | CName compress name isdir obs => Bool.eqb (should_clean compress name isdir) obs
  | CClean st tot listing =>
      let r := clean st in
      N.eqb (r_total r) tot && list_eqb path_eqb (map i_path (r_live r)) listing
  | CRace st klo khi p sz tot listing =>
      let x0 := start isort st in
      let n := length (cs_queue x0) in
      some_from (fun k =>
                   let x := run (st_compress st) (st_low st) x0 (repeat LIter k ++ LMark p sz :: repeat LIter n) in
                   N.eqb (cs_total x) tot && list_eqb path_eqb (map i_path (cs_live x)) listing)
                klo (S khi - klo)
  | CStoring st p files gate tot l1 l2 =>
      let go := prun store_ops isort (st_compress st) (st_high st) (st_low st) in
      let n_ops := length (store_ops files) in
      (* markDir, RemoveAll, two statements per finished file, ensureStoreReady of the file at the gate *)
      let x1 := go (pinit st) (PStore p files :: repeat PStoreStep (2 + 2 * gate + 1)) in
      let x2 := go x1 [PWalk] in
      let x3 := go x2 (repeat PIter (length (cs_queue (ps_c x2)))) in
      let x4 := go x3 (repeat PStoreStep n_ops) in
      N.eqb (cs_total (ps_c x3)) tot
      && same_paths (map i_path (cs_live (ps_c x3))) l1
      && same_paths (map i_path (cs_live (ps_c x4))) l2
  end.
