(* C04 / C05 - the build scheduler.  Executable labelled transition system for the queueing state machine of
   src/core/state.go (queueTarget / queueResolvedTarget / queueTargetAsync, addPendingParse / addPendingBuild, taskDone,
   Stop, forwardResults' inactivity cycle check, logResult), src/core/build_target.go (BuildTargetState, SyncUpdateState,
   FinishBuild / WaitForBuild), src/plz/plz.go (Run: the parse and action loops, the limiter, completeAction),
   src/build/build_step.go (Build: Building -> Built/Unchanged/Reused | Failed, FinishBuild), src/parse/parse_step.go
   (parse: ActivateTarget / SyncParsePackage / parsePackage) and src/output/targets.go (handleOutput: Stop on failure).
   No proofs here.

   One label = one atomic step of one goroutine.  A goroutine is an entry of a list (a multiset: parse tasks, build-task
   senders, queued tasks, workers in each phase) or, for queueTargetAsync, the per-target slot `asy` (a slot is only
   initialised by a successful compare-and-swap; Proof/Sched_Inv.v shows a live slot is never overwritten).
   What is abstracted: goroutines/channels/the Go runtime (atomic steps, any interleaving), require/provide (g_deps are the
   resolved dependencies), subincludes/pre-build/post-build functions, tests, remote execution, forceBuild, query mode
   (NeedBuild = false) except for the Inactive -> Semiactive swap itself, time (the 5 s timer may fire whenever its
   condition holds).  The state constants and their order come from Gen/StateOrder.v (regenerated from the source). *)
From PlzV Require Import Base.Harness.
From PlzV Require Export Gen.StateOrder.

Inductive pstate := PNone | PParsing | PParsed | PFailed.
(* queueTargetAsync(target, building = true): program counter + the dependencies still to be handled in this phase *)
Inductive astate :=
| ANone                                   (* never spawned *)
| AQueue (todo : list nat)                (* for _, dep := range DeclaredDependencies() { queueTarget(dep) } *)
| AResolve (todo : list nat) (err : bool) (* resolveDependencies: one errgroup goroutine per dependency, any order *)
| AWait (todo : list nat)                 (* for _, t := range Dependencies() { t.WaitForBuild(); if t.State() >= DependencyFailed ... } *)
| AFinishing                              (* returning: the deferred taskDone(true) is still to run *)
| ADone.

(* what logResult sends for a target, as --trace_file shows it *)
Inductive res := RBuilt (o : tstate) | RFailed | RDepFailed.
Inductive obs :=
| OStart (t : nat)            (* first TargetBuilding result of t ("Preparing...") *)
| OEnd (t : nat) (r : res)    (* the final result of t *)
| OErr (l : nat).             (* LogBuildError(label, TargetBuildFailed) from asyncError / checkForCycles *)

Record graph := mkGraph {
  g_n : nat;                  (* labels are 0 .. g_n-1 *)
  g_pkg : nat -> nat;         (* the package of a label *)
  g_deps : nat -> list nat;   (* resolved dependencies, in the order of Dependencies() *)
  g_decl : nat -> bool;       (* the label is declared by its package's BUILD file *)
  g_pkg_ok : nat -> bool;     (* the package's BUILD file exists and evaluates without error *)
  g_req : list nat;           (* labels on the command line *)
  g_keep_going : bool;
  g_threads : nat             (* config.Please.NumThreads: size of the local limiter *)
}.

Record state := mkState {
  ts : nat -> tstate;
  fin : nat -> bool;
  ex : nat -> bool;
  pk : nat -> pstate;
  asy : nat -> astate;
  initq : list nat;
  ptasks : list nat;
  parsers : list nat;
  semi : list nat;
  sendq : list nat;
  actq : list nat;
  taken : list nat;
  building : list nat;
  finishing : list nat;
  completing : list nat;
  numPending : Z;
  numActive : Z;
  initdone : bool;
  closed : bool;
  exited : bool;
  failed : bool;
  stopreq : bool;
  cycreported : bool;
  trace : list obs;
  nfwd : nat
}.
Definition set_ts (s : state) (v : nat -> tstate) : state := mkState v (fin s) (ex s) (pk s) (asy s) (initq s) (ptasks s) (parsers s) (semi s) (sendq s) (actq s) (taken s) (building s) (finishing s) (completing s) (numPending s) (numActive s) (initdone s) (closed s) (exited s) (failed s) (stopreq s) (cycreported s) (trace s) (nfwd s).
Definition set_fin (s : state) (v : nat -> bool) : state := mkState (ts s) v (ex s) (pk s) (asy s) (initq s) (ptasks s) (parsers s) (semi s) (sendq s) (actq s) (taken s) (building s) (finishing s) (completing s) (numPending s) (numActive s) (initdone s) (closed s) (exited s) (failed s) (stopreq s) (cycreported s) (trace s) (nfwd s).
Definition set_ex (s : state) (v : nat -> bool) : state := mkState (ts s) (fin s) v (pk s) (asy s) (initq s) (ptasks s) (parsers s) (semi s) (sendq s) (actq s) (taken s) (building s) (finishing s) (completing s) (numPending s) (numActive s) (initdone s) (closed s) (exited s) (failed s) (stopreq s) (cycreported s) (trace s) (nfwd s).
Definition set_pk (s : state) (v : nat -> pstate) : state := mkState (ts s) (fin s) (ex s) v (asy s) (initq s) (ptasks s) (parsers s) (semi s) (sendq s) (actq s) (taken s) (building s) (finishing s) (completing s) (numPending s) (numActive s) (initdone s) (closed s) (exited s) (failed s) (stopreq s) (cycreported s) (trace s) (nfwd s).
Definition set_asy (s : state) (v : nat -> astate) : state := mkState (ts s) (fin s) (ex s) (pk s) v (initq s) (ptasks s) (parsers s) (semi s) (sendq s) (actq s) (taken s) (building s) (finishing s) (completing s) (numPending s) (numActive s) (initdone s) (closed s) (exited s) (failed s) (stopreq s) (cycreported s) (trace s) (nfwd s).
Definition set_initq (s : state) (v : list nat) : state := mkState (ts s) (fin s) (ex s) (pk s) (asy s) v (ptasks s) (parsers s) (semi s) (sendq s) (actq s) (taken s) (building s) (finishing s) (completing s) (numPending s) (numActive s) (initdone s) (closed s) (exited s) (failed s) (stopreq s) (cycreported s) (trace s) (nfwd s).
Definition set_ptasks (s : state) (v : list nat) : state := mkState (ts s) (fin s) (ex s) (pk s) (asy s) (initq s) v (parsers s) (semi s) (sendq s) (actq s) (taken s) (building s) (finishing s) (completing s) (numPending s) (numActive s) (initdone s) (closed s) (exited s) (failed s) (stopreq s) (cycreported s) (trace s) (nfwd s).
Definition set_parsers (s : state) (v : list nat) : state := mkState (ts s) (fin s) (ex s) (pk s) (asy s) (initq s) (ptasks s) v (semi s) (sendq s) (actq s) (taken s) (building s) (finishing s) (completing s) (numPending s) (numActive s) (initdone s) (closed s) (exited s) (failed s) (stopreq s) (cycreported s) (trace s) (nfwd s).
Definition set_semi (s : state) (v : list nat) : state := mkState (ts s) (fin s) (ex s) (pk s) (asy s) (initq s) (ptasks s) (parsers s) v (sendq s) (actq s) (taken s) (building s) (finishing s) (completing s) (numPending s) (numActive s) (initdone s) (closed s) (exited s) (failed s) (stopreq s) (cycreported s) (trace s) (nfwd s).
Definition set_sendq (s : state) (v : list nat) : state := mkState (ts s) (fin s) (ex s) (pk s) (asy s) (initq s) (ptasks s) (parsers s) (semi s) v (actq s) (taken s) (building s) (finishing s) (completing s) (numPending s) (numActive s) (initdone s) (closed s) (exited s) (failed s) (stopreq s) (cycreported s) (trace s) (nfwd s).
Definition set_actq (s : state) (v : list nat) : state := mkState (ts s) (fin s) (ex s) (pk s) (asy s) (initq s) (ptasks s) (parsers s) (semi s) (sendq s) v (taken s) (building s) (finishing s) (completing s) (numPending s) (numActive s) (initdone s) (closed s) (exited s) (failed s) (stopreq s) (cycreported s) (trace s) (nfwd s).
Definition set_taken (s : state) (v : list nat) : state := mkState (ts s) (fin s) (ex s) (pk s) (asy s) (initq s) (ptasks s) (parsers s) (semi s) (sendq s) (actq s) v (building s) (finishing s) (completing s) (numPending s) (numActive s) (initdone s) (closed s) (exited s) (failed s) (stopreq s) (cycreported s) (trace s) (nfwd s).
Definition set_building (s : state) (v : list nat) : state := mkState (ts s) (fin s) (ex s) (pk s) (asy s) (initq s) (ptasks s) (parsers s) (semi s) (sendq s) (actq s) (taken s) v (finishing s) (completing s) (numPending s) (numActive s) (initdone s) (closed s) (exited s) (failed s) (stopreq s) (cycreported s) (trace s) (nfwd s).
Definition set_finishing (s : state) (v : list nat) : state := mkState (ts s) (fin s) (ex s) (pk s) (asy s) (initq s) (ptasks s) (parsers s) (semi s) (sendq s) (actq s) (taken s) (building s) v (completing s) (numPending s) (numActive s) (initdone s) (closed s) (exited s) (failed s) (stopreq s) (cycreported s) (trace s) (nfwd s).
Definition set_completing (s : state) (v : list nat) : state := mkState (ts s) (fin s) (ex s) (pk s) (asy s) (initq s) (ptasks s) (parsers s) (semi s) (sendq s) (actq s) (taken s) (building s) (finishing s) v (numPending s) (numActive s) (initdone s) (closed s) (exited s) (failed s) (stopreq s) (cycreported s) (trace s) (nfwd s).
Definition set_numPending (s : state) (v : Z) : state := mkState (ts s) (fin s) (ex s) (pk s) (asy s) (initq s) (ptasks s) (parsers s) (semi s) (sendq s) (actq s) (taken s) (building s) (finishing s) (completing s) v (numActive s) (initdone s) (closed s) (exited s) (failed s) (stopreq s) (cycreported s) (trace s) (nfwd s).
Definition set_numActive (s : state) (v : Z) : state := mkState (ts s) (fin s) (ex s) (pk s) (asy s) (initq s) (ptasks s) (parsers s) (semi s) (sendq s) (actq s) (taken s) (building s) (finishing s) (completing s) (numPending s) v (initdone s) (closed s) (exited s) (failed s) (stopreq s) (cycreported s) (trace s) (nfwd s).
Definition set_initdone (s : state) (v : bool) : state := mkState (ts s) (fin s) (ex s) (pk s) (asy s) (initq s) (ptasks s) (parsers s) (semi s) (sendq s) (actq s) (taken s) (building s) (finishing s) (completing s) (numPending s) (numActive s) v (closed s) (exited s) (failed s) (stopreq s) (cycreported s) (trace s) (nfwd s).
Definition set_closed (s : state) (v : bool) : state := mkState (ts s) (fin s) (ex s) (pk s) (asy s) (initq s) (ptasks s) (parsers s) (semi s) (sendq s) (actq s) (taken s) (building s) (finishing s) (completing s) (numPending s) (numActive s) (initdone s) v (exited s) (failed s) (stopreq s) (cycreported s) (trace s) (nfwd s).
Definition set_exited (s : state) (v : bool) : state := mkState (ts s) (fin s) (ex s) (pk s) (asy s) (initq s) (ptasks s) (parsers s) (semi s) (sendq s) (actq s) (taken s) (building s) (finishing s) (completing s) (numPending s) (numActive s) (initdone s) (closed s) v (failed s) (stopreq s) (cycreported s) (trace s) (nfwd s).
Definition set_failed (s : state) (v : bool) : state := mkState (ts s) (fin s) (ex s) (pk s) (asy s) (initq s) (ptasks s) (parsers s) (semi s) (sendq s) (actq s) (taken s) (building s) (finishing s) (completing s) (numPending s) (numActive s) (initdone s) (closed s) (exited s) v (stopreq s) (cycreported s) (trace s) (nfwd s).
Definition set_stopreq (s : state) (v : bool) : state := mkState (ts s) (fin s) (ex s) (pk s) (asy s) (initq s) (ptasks s) (parsers s) (semi s) (sendq s) (actq s) (taken s) (building s) (finishing s) (completing s) (numPending s) (numActive s) (initdone s) (closed s) (exited s) (failed s) v (cycreported s) (trace s) (nfwd s).
Definition set_cycreported (s : state) (v : bool) : state := mkState (ts s) (fin s) (ex s) (pk s) (asy s) (initq s) (ptasks s) (parsers s) (semi s) (sendq s) (actq s) (taken s) (building s) (finishing s) (completing s) (numPending s) (numActive s) (initdone s) (closed s) (exited s) (failed s) (stopreq s) v (trace s) (nfwd s).
Definition set_trace (s : state) (v : list obs) : state := mkState (ts s) (fin s) (ex s) (pk s) (asy s) (initq s) (ptasks s) (parsers s) (semi s) (sendq s) (actq s) (taken s) (building s) (finishing s) (completing s) (numPending s) (numActive s) (initdone s) (closed s) (exited s) (failed s) (stopreq s) (cycreported s) v (nfwd s).
Definition set_nfwd (s : state) (v : nat) : state := mkState (ts s) (fin s) (ex s) (pk s) (asy s) (initq s) (ptasks s) (parsers s) (semi s) (sendq s) (actq s) (taken s) (building s) (finishing s) (completing s) (numPending s) (numActive s) (initdone s) (closed s) (exited s) (failed s) (stopreq s) (cycreported s) (trace s) v.

Definition upd {A} (f : nat -> A) (k : nat) (v : A) : nat -> A := fun x => if Nat.eqb x k then v else f x.
Definition mem (t : nat) (l : list nat) : bool := existsb (Nat.eqb t) l.
Fixpoint remove1 (t : nat) (l : list nat) : list nat :=
  match l with
  | [] => []
  | x :: r => if Nat.eqb t x then r else x :: remove1 t r
  end.
Definition is_nil {A} (l : list A) : bool := match l with [] => true | _ => false end.

Definition rk (s : tstate) : N := rank s.
Definition st_eqb (a b : tstate) : bool := N.eqb (rank a) (rank b).
Definition st_geb (a b : tstate) : bool := N.leb (rank b) (rank a).     (* a >= b on the Go enum *)
(* func (s BuildTargetState) IsBuilt() *)
Definition is_built (s : tstate) : bool := N.leb (rank is_built_lo) (rank s) && N.ltb (rank s) (rank is_built_hi).
(* SyncUpdateState(before, after) tried for each pair in turn: the new state if one of them succeeds *)
Fixpoint cas (pairs : list (tstate * tstate)) (cur : tstate) : option tstate :=
  match pairs with
  | [] => None
  | (b, a) :: r => if st_eqb cur b then Some a else cas r cur
  end.
Definition pst_eqb (a b : pstate) : bool :=
  match a, b with PNone, PNone | PParsing, PParsing | PParsed, PParsed | PFailed, PFailed => true | _, _ => false end.

Definition init (g : graph) : state :=
  mkState (fun _ => Inactive) (fun _ => false) (fun _ => false) (fun _ => PNone) (fun _ => ANone)
          (g_req g) [] [] [] [] [] [] [] [] []
          1%Z 1%Z                                  (* NewBuildState: numPending = numActive = 1 *)
          false false false false false false [] 0.

(* taskDone: if atomic.AddInt64(&numPending, -1) <= 0 { state.Stop() } *)
Definition task_done (s : state) : state :=
  let p := (numPending s - 1)%Z in
  let s := set_numPending s p in
  if (p <=? 0)%Z then set_closed s true else s.

(* logResult with a failure status sets progress.failed; the output monitor (handleOutput) later calls state.Stop()
   unless --keep_going, and always for a ParseFailed result: `stopreq` is that pending call, LStop performs it. *)
(* logResult's statements in source order (Gen/StateOrder.v): the failure flags count for the exit status only if they
   are stored before the result is published - the receiver of a failure result stops the build and main reads the
   flags as soon as the workers are done - and buildFailed/testFailed before failed (toExitCode reads failed first). *)
Definition lr_eqb (a b : lr_stmt) : bool :=
  match a, b with LRTime, LRTime | LRStoreSpecific, LRStoreSpecific | LRStoreFailed, LRStoreFailed | LRSend, LRSend => true | _, _ => false end.
Fixpoint lr_index (x : lr_stmt) (p : list lr_stmt) : option nat :=
  match p with
  | [] => None
  | y :: r => if lr_eqb x y then Some 0 else match lr_index x r with Some k => Some (S k) | None => None end
  end.
Definition flags_before_send (p : list lr_stmt) : bool :=
  match lr_index LRStoreSpecific p, lr_index LRStoreFailed p, lr_index LRSend p with
  | Some a, Some b, Some c => Nat.ltb a b && Nat.ltb b c
  | _, _, _ => false
  end.

Definition log_fail (g : graph) (s : state) (parse : bool) : state :=
  let s := set_failed s (flags_before_send logresult_prog || failed s) in
  if negb (g_keep_going g) || parse then set_stopreq s true else s.

(* build.Build's failure path in source order (Gen/StateOrder.v: buildfail_prog).  FinishBuild wakes every goroutine blocked
   in WaitForBuild on this target; what they read next is target.State().  As the source has it, SetState(Failed) comes
   first (LBuildFail sets the state, LFinishBuild wakes the waiters).  Were FinishBuild moved in front of SetState, the
   waiters would be woken by LBuildFail while the state is still Building and the state would only be set by LFinishBuild. *)
Definition bf_eqb (a b : bf_stmt) : bool :=
  match a, b with BFLog, BFLog | BFRemoveOutputs, BFRemoveOutputs | BFSetState, BFSetState | BFFinish, BFFinish => true | _, _ => false end.
Fixpoint bf_index (x : bf_stmt) (p : list bf_stmt) : option nat :=
  match p with
  | [] => None
  | y :: r => if bf_eqb x y then Some 0 else match bf_index x r with Some k => Some (S k) | None => None end
  end.
Definition state_before_finish (p : list bf_stmt) : bool :=
  match bf_index BFSetState p, bf_index BFFinish p with
  | Some a, Some b => Nat.ltb a b
  | _, _ => false
  end.

(* core.waitOnChan (behind WaitForBuild, SyncParsePackage, ...) as the program gotrans reads (Gen/StateOrder.v:
   waitonchan_prog), run against an environment: at every blocking point the environment says which event is delivered,
   the close of the channel or the 10 s debug timer.  wc_exec returns Some seen when the function returns, seen = the
   close has been received; None = still blocked when the environment ends. *)
Inductive wc_ev := WEClose | WETimer.
Fixpoint wc_recv (env : list wc_ev) : option (list wc_ev) :=
  match env with
  | [] => None
  | WEClose :: r => Some r
  | WETimer :: r => wc_recv r      (* a bare <-ch ignores the timer *)
  end.
Fixpoint wc_exec (p : list wc_stmt) (env : list wc_ev) (seen : bool) : option bool :=
  match p with
  | [] => Some seen
  | WCRecv :: r => match wc_recv env with Some env' => wc_exec r env' true | None => None end
  | WCSelect chret tmret :: r =>
      match env with
      | [] => None
      | WEClose :: env' => if chret then Some true else wc_exec r env' true
      | WETimer :: env' => if tmret then Some seen else wc_exec r env' seen
      end
  end.
(* the syntactic check: no path through the program returns without having received the close *)
Fixpoint wc_safe (p : list wc_stmt) : bool :=
  match p with
  | [] => false
  | WCRecv :: _ => true
  | WCSelect _ tmret :: r => negb tmret && wc_safe r
  end.
(* WaitForBuild returns only when FinishBuild has closed the channel *)
Definition wait_needs_close : bool := wc_safe waitonchan_prog.

(* addPendingParse *)
Definition add_pending_parse (s : state) (l : nat) : state :=
  set_ptasks (set_numPending (set_numActive s (numActive s + 1)%Z) (numPending s + 1)%Z) (l :: ptasks s).

(* queueResolvedTarget (NeedBuild, forceBuild = false) *)
Definition queue_resolved (g : graph) (s : state) (t : nat) : state :=
  if st_geb (ts s t) queued_threshold then s
  else match cas cas_need (ts s t) with
       | Some new =>
           let s := set_ts s (upd (ts s) t new) in
           let s := set_numActive s (numActive s + 1)%Z in
           let s := set_numPending s (numPending s + 1)%Z in
           set_asy s (upd (asy s) t (AQueue (g_deps g t)))       (* go state.queueTargetAsync(target, ...) *)
       | None => s
       end.

(* asyncError: LogBuildError(label, TargetBuildFailed); state.Stop() *)
(* LogBuildError(label, TargetBuildFailed) followed by state.Stop(): always (checkForCycles), or as asyncError does it
   (Gen/StateOrder.v: asyncerror_stops_always - unconditionally in the source as it is; were it `if !state.KeepGoing`,
   a --keep_going build would go on, with the broken target never finishing) *)
Definition err_stop (always : bool) (g : graph) (s : state) (l : nat) : state :=
  let s' := log_fail g (set_trace s (OErr l :: trace s)) false in
  if always || negb (g_keep_going g) then set_closed s' true else s'.
Definition async_error (g : graph) (s : state) (l : nat) : state := err_stop asyncerror_stops_always g s l.

(* the end of a non-building queueTargetAsync: `if building && target.SyncUpdateState(Active, Pending)` does nothing
   (Gen/StateOrder.v: pending_cas_needs_building); without the `building &&` this pass, which has not waited for any
   dependency, would hand out the build task of a target that a forced request has made Active meanwhile *)
Definition semi_release (s : state) (t : nat) : state :=
  if pending_cas_needs_building then s else
  match cas [cas_pending] (ts s t) with
  | Some new => set_sendq (set_numPending (set_ts s (upd (ts s) t new)) (numPending s + 1)%Z) (t :: sendq s)
  | None => s
  end.

Definition all_decl_exist (g : graph) (s : state) (p : nat) : bool :=
  forallb (fun t => negb (g_decl g t && Nat.eqb (g_pkg g t) p) || ex s t) (seq 0 (g_n g)).

(* target.Dependencies() of a as the cycle detector sees it: the dependencies resolveOneDependency has filled in *)
Definition redge (g : graph) (s : state) (a b : nat) : bool :=
  mem b (g_deps g a) &&
  match asy s a with
  | AResolve todo _ => negb (mem b todo)
  | AWait _ => true
  | _ => false
  end.
Fixpoint path_ok (g : graph) (s : state) (first : nat) (c : list nat) : bool :=
  match c with
  | [] => false
  | [a] => redge g s a first
  | a :: ((b :: _) as r) => redge g s a b && path_ok g s first r
  end.
Definition is_cycle (g : graph) (s : state) (c : list nat) : bool :=
  match c with [] => false | a :: _ => path_ok g s a c end.

Definition built_kind (o : tstate) : bool := st_eqb o Built || st_eqb o Unchanged || st_eqb o Reused.
Definition busy (s : state) : nat := length (building s) + length (finishing s) + length (completing s).

Inductive label :=
| LInitRequest                       (* findOriginalTasks: AddOriginalTarget(next label) -> addPendingParse *)
| LInitDone                          (* findOriginalTasks: state.TaskDone() *)
| LParseActivate (l : nat)           (* parse task: target / package already there -> ActivateTarget; TaskDone *)
| LParseClaim (l : nat)              (* parse task: SyncParsePackage inserted the pending-package channel *)
| LAddTarget (l t : nat)             (* parsePackage for l: the BUILD file adds target t (activated if it is l) *)
| LParseOk (l : nat)                 (* AddPackage; LogParseResult(PackageParsed); ActivateTarget; TaskDone *)
| LParseFail (l : nat)               (* LogBuildError(ParseFailed); TaskDone *)
| LMarkSemi (t : nat)                (* SyncUpdateState(Inactive, Semiactive) succeeded (NeedBuild = false callers) *)
| LSemiDone (t : nat)                (* that non-building queueTargetAsync: taskDone(true) *)
| LAsyncQueueDep (t : nat)           (* queueTarget(next declared dependency) *)
| LAsyncBeginResolve (t : nat)
| LAsyncResolveDep (t d : nat)       (* resolveOneDependency + callback queueResolvedTarget *)
| LAsyncBeginWait (t : nat)          (* g.Wait() returned: error -> asyncError, else start waiting *)
| LWaitDep (t d : nat)               (* WaitForBuild returned and the dependency is below DependencyFailed *)
| LDepFailed (t d : nat)             (* ... at or above it: SetState; LogBuildResult; FinishBuild *)
| LActivatePending (t : nat)         (* SyncUpdateState(Active, Pending) + addPendingBuild *)
| LAsyncDone (t : nat)               (* deferred taskDone(true) *)
| LSendTask (t : nat)                (* addPendingBuild's goroutine: pendingActions <- task (lost if closed) *)
| LWorkerTake (t : nat)              (* for task := range actions { go ... } *)
| LBuildStart (t : nat)              (* limiter acquired; Build: SetState(Building); "Preparing..." *)
| LBuildOk (t : nat) (o : tstate)    (* SetState(Built|Unchanged|Reused); LogBuildResult *)
| LBuildFail (t : nat)               (* LogBuildError(TargetBuildFailed); SetState(Failed) *)
| LFinishBuild (t : nat)             (* target.FinishBuild() *)
| LTaskDone (t : nat)                (* completeAction: limiter released; state.TaskDone() *)
| LForward                           (* forwardResults moves the oldest result from internalResults to the results channel *)
| LStop                              (* the output monitor calls state.Stop() *)
| LTimerCycleCheck (c : list nat)    (* 5 s without a result and no active target: Check() found the cycle c *)
| LExitRun.                          (* both range loops ended and wg.Wait() returned *)

Definition lt_n (g : graph) (t : nat) : bool := Nat.ltb t (g_n g).

Definition enabled (g : graph) (s : state) (l : label) : bool :=
  negb (exited s) &&
  match l with
  | LInitRequest => negb (is_nil (initq s))
  | LInitDone => is_nil (initq s) && negb (initdone s)
  | LParseActivate l =>
      lt_n g l && mem l (ptasks s) &&
      ((ex s l && negb (st_geb (ts s l) queued_threshold)) || pst_eqb (pk s (g_pkg g l)) PParsed)
  | LParseClaim l =>
      lt_n g l && mem l (ptasks s) && negb (ex s l && negb (st_geb (ts s l) queued_threshold)) &&
      pst_eqb (pk s (g_pkg g l)) PNone
  | LAddTarget l t =>
      lt_n g l && lt_n g t && mem l (parsers s) && g_decl g t && Nat.eqb (g_pkg g t) (g_pkg g l) && negb (ex s t)
  | LParseOk l => lt_n g l && mem l (parsers s) && g_pkg_ok g (g_pkg g l) && all_decl_exist g s (g_pkg g l)
  | LParseFail l => lt_n g l && mem l (parsers s) && negb (g_pkg_ok g (g_pkg g l))
  | LMarkSemi t => lt_n g t && ex s t && match cas cas_noneed (ts s t) with Some _ => true | None => false end
  | LSemiDone t => lt_n g t && mem t (semi s)
  | LAsyncQueueDep t => lt_n g t && match asy s t with AQueue (_ :: _) => true | _ => false end
  | LAsyncBeginResolve t => lt_n g t && match asy s t with AQueue [] => true | _ => false end
  | LAsyncResolveDep t d =>
      lt_n g t && match asy s t with
                  | AResolve todo _ => mem d todo && (ex s d || pst_eqb (pk s (g_pkg g d)) PParsed)
                  | _ => false
                  end
  | LAsyncBeginWait t => lt_n g t && match asy s t with AResolve [] _ => true | _ => false end
  | LWaitDep t d =>
      lt_n g t && match asy s t with
                  | AWait (d' :: _) => Nat.eqb d d' && (negb wait_needs_close || fin s d) && negb (st_geb (ts s d) dep_failed_threshold)
                  | _ => false
                  end
  | LDepFailed t d =>
      lt_n g t && match asy s t with
                  | AWait (d' :: _) => Nat.eqb d d' && (negb wait_needs_close || fin s d) && st_geb (ts s d) dep_failed_threshold
                  | _ => false
                  end
  | LActivatePending t => lt_n g t && match asy s t with AWait [] => true | _ => false end
  | LAsyncDone t => lt_n g t && match asy s t with AFinishing => true | _ => false end
  | LSendTask t => lt_n g t && mem t (sendq s)
  | LWorkerTake t => lt_n g t && mem t (actq s)
  | LBuildStart t => lt_n g t && mem t (taken s) && Nat.ltb (busy s) (g_threads g)
  | LBuildOk t o => lt_n g t && mem t (building s) && built_kind o
  | LBuildFail t => lt_n g t && mem t (building s)
  | LFinishBuild t => lt_n g t && mem t (finishing s)
  | LTaskDone t => lt_n g t && mem t (completing s)
  | LForward => Nat.ltb (nfwd s) (length (trace s))
  | LStop => stopreq s && negb (closed s)
  | LTimerCycleCheck c =>
      is_nil (building s) && negb (cycreported s) && is_cycle g s c
  | LExitRun =>
      closed s && is_nil (actq s) && is_nil (taken s) && is_nil (building s) && is_nil (finishing s) && is_nil (completing s)
  end.

Definition apply (g : graph) (s : state) (l : label) : state :=
  match l with
  | LInitRequest =>
      match initq s with
      | [] => s
      | l :: r => add_pending_parse (set_initq s r) l
      end
  | LInitDone => task_done (set_initdone s true)
  | LParseActivate l =>
      let s := set_ptasks s (remove1 l (ptasks s)) in
      let s := if ex s l then queue_resolved g s l else log_fail g s true in
      task_done s
  | LParseClaim l =>
      let s := set_ptasks s (remove1 l (ptasks s)) in
      set_pk (set_parsers s (l :: parsers s)) (upd (pk s) (g_pkg g l) PParsing)
  | LAddTarget l t =>
      let s := set_ex s (upd (ex s) t true) in
      if Nat.eqb t l then queue_resolved g s t else s
  | LParseOk l =>
      let s := set_parsers s (remove1 l (parsers s)) in
      let s := set_pk s (upd (pk s) (g_pkg g l) PParsed) in
      let s := if ex s l then queue_resolved g s l else log_fail g s true in
      task_done s
  | LParseFail l =>
      let s := set_parsers s (remove1 l (parsers s)) in
      let s := set_pk s (upd (pk s) (g_pkg g l) PFailed) in
      task_done (log_fail g s true)
  | LMarkSemi t =>
      match cas cas_noneed (ts s t) with
      | Some new =>
          let s := set_ts s (upd (ts s) t new) in
          let s := set_numActive s (numActive s + 1)%Z in
          let s := set_numPending s (numPending s + 1)%Z in
          set_semi s (t :: semi s)
      | None => s
      end
  | LSemiDone t => task_done (semi_release (set_semi s (remove1 t (semi s))) t)
  | LAsyncQueueDep t =>
      match asy s t with
      | AQueue (d :: r) =>
          if ex s d then
            let s := queue_resolved g s d in set_asy s (upd (asy s) t (AQueue r))
          else if pst_eqb (pk s (g_pkg g d)) PParsed then      (* "Target d (referenced by t) doesn't exist" *)
            let s := async_error g s d in set_asy s (upd (asy s) t AFinishing)
          else
            let s := add_pending_parse s d in set_asy s (upd (asy s) t (AQueue r))
      | _ => s
      end
  | LAsyncBeginResolve t => set_asy s (upd (asy s) t (AResolve (g_deps g t) false))
  | LAsyncResolveDep t d =>
      match asy s t with
      | AResolve todo err =>
          if ex s d then
            let s := queue_resolved g s d in set_asy s (upd (asy s) t (AResolve (remove1 d todo) err))
          else set_asy s (upd (asy s) t (AResolve (remove1 d todo) true))   (* "Couldn't find dependency" *)
      | _ => s
      end
  | LAsyncBeginWait t =>
      match asy s t with
      | AResolve _ true => let s := async_error g s t in set_asy s (upd (asy s) t AFinishing)
      | AResolve _ false => set_asy s (upd (asy s) t (AWait (g_deps g t)))
      | _ => s
      end
  | LWaitDep t d =>
      match asy s t with
      | AWait (_ :: r) => set_asy s (upd (asy s) t (AWait r))
      | _ => s
      end
  | LDepFailed t d =>
      let s := set_ts s (upd (ts s) t dep_failed_set) in          (* SetState, unconditional *)
      let s := set_trace s (OEnd t RDepFailed :: trace s) in      (* LogBuildResult(target, TargetBuilt, "Dependency failed") *)
      let s := set_fin s (upd (fin s) t true) in
      set_asy s (upd (asy s) t AFinishing)
  | LActivatePending t =>
      let s := match cas [cas_pending] (ts s t) with
               | Some new =>
                   let s := set_ts s (upd (ts s) t new) in
                   let s := set_numPending s (numPending s + 1)%Z in      (* addPendingBuild *)
                   set_sendq s (t :: sendq s)
               | None => s
               end in
      set_asy s (upd (asy s) t AFinishing)
  | LAsyncDone t => task_done (set_asy s (upd (asy s) t ADone))
  | LSendTask t =>
      let s := set_sendq s (remove1 t (sendq s)) in
      if closed s then s else set_actq s (t :: actq s)
  | LWorkerTake t => set_taken (set_actq s (remove1 t (actq s))) (t :: taken s)
  | LBuildStart t =>
      let s := set_taken s (remove1 t (taken s)) in
      let s := set_building s (t :: building s) in
      let s := set_ts s (upd (ts s) t build_start_set) in         (* SetState, unconditional *)
      set_trace s (OStart t :: trace s)
  | LBuildOk t o =>
      let s := set_building s (remove1 t (building s)) in
      let s := set_finishing s (t :: finishing s) in
      let s := set_ts s (upd (ts s) t o) in
      set_trace s (OEnd t (RBuilt o) :: trace s)
  | LBuildFail t =>
      let s := set_building s (remove1 t (building s)) in
      let s := set_finishing s (t :: finishing s) in
      let s := set_trace s (OEnd t RFailed :: trace s) in
      let s := log_fail g s false in
      if state_before_finish buildfail_prog then set_ts s (upd (ts s) t build_fail_set)
      else set_fin s (upd (fin s) t true)          (* FinishBuild first: the waiters are woken, the state is still Building *)
  | LFinishBuild t =>
      let s := set_finishing s (remove1 t (finishing s)) in
      let s := if state_before_finish buildfail_prog then s
               else if st_eqb (ts s t) build_start_set then set_ts s (upd (ts s) t build_fail_set) else s in
      set_fin (set_completing s (t :: completing s)) (upd (fin s) t true)
  | LTaskDone t => task_done (set_completing s (remove1 t (completing s)))
  | LForward => set_nfwd s (S (nfwd s))
  | LStop => set_closed s true
  | LTimerCycleCheck c =>
      let s := err_stop true g s (hd 0 c) in    (* checkForCycles: LogBuildError(cycle[0], TargetBuildFailed); state.Stop() *)
      set_cycreported s true
  | LExitRun => set_exited s true
  end.

(* what has reached the results channel (MonitorState, --trace_file), newest first: the oldest nfwd logged results.
   LExitRun is followed by CloseResults: results still in internalResults are dropped (forwardResults' send panics on
   the closed channel and the panic is swallowed). *)
Definition reported (s : state) : list obs := skipn (length (trace s) - nfwd s) (trace s).

Fixpoint run (g : graph) (s : state) (ls : list label) : option state :=
  match ls with
  | [] => Some s
  | l :: r => if enabled g s l then run g (apply g s l) r else None
  end.

(* ------------------------------------------------------------------------------------------------------------------ *)
(* Trace validation.  The observed events are what --trace_file recorded (the BuildResult stream), in order.
   `complete` searches the hidden steps (a fixed eager strategy; nothing is trusted about it); `accepts` then replays the
   resulting label list with `run`, and compares the trace of the final state and the exit status with what was seen. *)

Inductive ev :=
| EvStart (t : nat)
| EvEnd (t : nat) (r : res)
| EvErr (l : nat) (cyc : list nat).     (* cyc = [] : a missing dependency; otherwise the reported cycle, cyc's head = l *)

Definition tabulate {A} (n : nat) (f : nat -> A) (d : A) : nat -> A :=
  let l := map f (seq 0 n) in fun x => nth x l d.
(* same state, finite maps re-tabulated (keeps look-ups cheap during the search) *)
Definition normalize (g : graph) (s : state) : state :=
  let n := g_n g in
  let s := set_ts s (tabulate n (ts s) Inactive) in
  let s := set_fin s (tabulate n (fin s) false) in
  let s := set_ex s (tabulate n (ex s) false) in
  let s := set_pk s (tabulate n (pk s) PNone) in
  set_asy s (tabulate n (asy s) ANone).

(* steps taken eagerly: everything that produces no trace event and is not one of send/take/stop/timer/exit/mark-semi.
   Which parse task gets to parse a package whose BUILD file fails is not determined by the trace (only that label is
   activated while the file is evaluated); plz names it in its error output, the harness passes it as a hint.
   queueTarget(d) for an undeclared d either finds d's package parsed ("Target d doesn't exist", an OErr d event) or not
   yet (a parse task is added): `late` lists the labels for which the first was observed; their queue step waits for
   the package, all other queue steps are taken before any further package is claimed. *)
Definition eager (g : graph) (hints late : list nat) (s : state) (l : label) : bool :=
  match l with
  | LParseClaim l => g_pkg_ok g (g_pkg g l) || mem l hints
  | LForward | LInitRequest | LInitDone | LParseActivate _ | LAddTarget _ _ | LParseOk _ | LParseFail _
  | LSemiDone _ | LAsyncBeginResolve _ | LAsyncResolveDep _ _ | LWaitDep _ _ | LActivatePending _ | LAsyncDone _
  | LFinishBuild _ | LTaskDone _ => true
  | LAsyncQueueDep t =>
      match asy s t with
      | AQueue (d :: _) => ex s d || (negb (pst_eqb (pk s (g_pkg g d)) PParsed) && negb (mem d late))
      | _ => false
      end
  | LAsyncBeginWait t => match asy s t with AResolve [] false => true | _ => false end
  | _ => false
  end.

Definition candidates (g : graph) : list label :=
  let ids := seq 0 (g_n g) in
  [LForward; LInitRequest; LInitDone] ++
  flat_map (fun t =>
    [LParseActivate t] ++ map (LAddTarget t) ids ++ [LParseFail t; LSemiDone t;
     LAsyncQueueDep t; LAsyncBeginResolve t] ++ map (LAsyncResolveDep t) (g_deps g t) ++ [LAsyncBeginWait t] ++
    map (LWaitDep t) (g_deps g t) ++ [LActivatePending t; LAsyncDone t; LFinishBuild t; LTaskDone t]) ids.

(* tried only when nothing else is possible: first the end of a parse, then a claim - packages in which an undeclared
   label is looked for (and not marked late) as late as possible *)
Definition parse_oks (g : graph) : list label := map LParseOk (seq 0 (g_n g)).
Definition claims (g : graph) (late : list nat) : list label :=
  let ids := seq 0 (g_n g) in
  let held := map (g_pkg g) (filter (fun l => negb (g_decl g l) && negb (mem l late)) ids) in
  map LParseClaim (filter (fun l => negb (mem (g_pkg g l) held)) ids ++ filter (fun l => mem (g_pkg g l) held) ids).

(* one pass over the candidates, taking every eager step that is enabled when its turn comes *)
Fixpoint pass (g : graph) (hints late : list nat) (cs : list label) (s : state) (acc : list label) (n : nat) : state * list label * nat :=
  match cs with
  | [] => (s, acc, n)
  | l :: r => if eager g hints late s l && enabled g s l then pass g hints late r (apply g s l) (l :: acc) (S n) else pass g hints late r s acc n
  end.
Fixpoint saturate_cs (g : graph) (hints late : list nat) (cs : list label) (fuel : nat) (s : state) (acc : list label) : state * list label :=
  match fuel with
  | O => (s, acc)
  | S f =>
      match pass g hints late cs s acc 0 with
      | (s', acc', S _) => saturate_cs g hints late cs f (normalize g s') acc'
      | (s', acc', O) =>
          (* nothing else to do: let one parse finish, or one parse task claim its package *)
          match find (fun l => eager g hints late s' l && enabled g s' l) (parse_oks g ++ claims g late) with
          | Some l => saturate_cs g hints late cs f (normalize g (apply g s' l)) (l :: acc')
          | None => (s', acc')
          end
      end
  end.
Definition saturate (g : graph) (hints late : list nat) (fuel : nat) (s : state) (acc : list label) : state * list label :=
  saturate_cs g hints late (candidates g) fuel s acc.
(* the same without LForward: used for the part of a run whose results never reached the results channel *)
Definition saturate_nf (g : graph) (hints late : list nat) (fuel : nat) (s : state) (acc : list label) : state * list label :=
  saturate_cs g hints late (tl (candidates g)) fuel s acc.

Definition take (g : graph) (s : state) (acc : list label) (l : label) : option (state * list label) :=
  if enabled g s l then Some (normalize g (apply g s l), l :: acc) else None.
Fixpoint take_all (g : graph) (s : state) (acc : list label) (ls : list label) : option (state * list label) :=
  match ls with
  | [] => Some (s, acc)
  | l :: r => match take g s acc l with Some (s', acc') => take_all g s' acc' r | None => None end
  end.

(* rotate c so that it starts at l *)
Fixpoint rotate_to (l : nat) (fuel : nat) (c : list nat) : list nat :=
  match fuel, c with
  | S f, a :: r => if Nat.eqb a l then c else rotate_to l f (r ++ [a])
  | _, _ => c
  end.

Definition starts_later (t : nat) (r : list ev) : bool :=
  existsb (fun e => match e with EvStart u => Nat.eqb t u | _ => false end) r.
(* a task that is started later must have reached the channel before it is closed *)
Definition sends_before_close (g : graph) (s : state) (r : list ev) : list label :=
  map LSendTask (filter (fun t => mem t (sendq s) && starts_later t r) (seq 0 (g_n g))).

Definition labels_for (g : graph) (s : state) (e : ev) (r : list ev) : list label :=
  match e with
  | EvStart t => (if mem t (sendq s) then [LSendTask t] else []) ++
                 (if mem t (sendq s) || mem t (actq s) then [LWorkerTake t] else []) ++ [LBuildStart t]
  | EvEnd t (RBuilt o) => [LBuildOk t o]
  | EvEnd t RFailed => [LBuildFail t]
  | EvEnd t RDepFailed => match asy s t with AWait (d :: _) => [LDepFailed t d] | _ => [LDepFailed t 0] end
  | EvErr l [] =>
      sends_before_close g s r ++
      match find (fun t => match asy s t with AQueue (d :: _) => Nat.eqb d l | _ => false end) (seq 0 (g_n g)) with
      | Some t => [LAsyncQueueDep t]
      | None => [LAsyncBeginWait l]
      end
  | EvErr l c => sends_before_close g s r ++ [LTimerCycleCheck (rotate_to l (length c) c)]
  end.

Definition fuel_of (g : graph) : nat := 10 * g_n g + 20.

Fixpoint complete (g : graph) (hints late : list nat) (s : state) (acc : list label) (es : list ev) : option (state * list label) :=
  match es with
  | [] => Some (s, acc)
  | e :: r =>
      let '(s1, acc1) := saturate g hints late (fuel_of g) s acc in
      match take_all g s1 acc1 (labels_for g s1 e r) with
      | Some (s2, acc2) => complete g hints late s2 acc2 r
      | None => None
      end
  end.

(* the end of the invocation: pending Stop, the senders that find the channel closed, then wg.Wait() returns *)
Definition finish (g : graph) (hints late : list nat) (s : state) (acc : list label) : option (state * list label) :=
  let '(s1, acc1) := saturate g hints late (fuel_of g) s acc in
  let stop := if stopreq s1 && negb (closed s1) then [LStop] else [] in
  match take_all g s1 acc1 stop with
  | Some (s2, acc2) =>
      match take_all g s2 acc2 (map LSendTask (sendq s2)) with
      | Some (s3, acc3) => take g s3 acc3 LExitRun
      | None => None
      end
  | None => None
  end.

(* The observed events are only what forwardResults had moved to the results channel when Run called CloseResults: a
   PREFIX of the logged stream (`reported`).  The rest of the run - the lost tail - is reconstructed here: first the
   commands the action log shows (started / ended / failed) but whose results are missing from the stream (`tail`, from
   the harness), then any further steps up to LExitRun, never LForward.  `exit_first`: end the run as soon as LExitRun is
   enabled; otherwise take every result-logging step that is enabled first. *)
Definition wait_head (s : state) (t : nat) : option nat := match asy s t with AWait (d :: _) => Some d | _ => None end.
Fixpoint walk_heads (s : state) (fuel : nat) (t : nat) : option nat :=
  match fuel with
  | O => Some t
  | S f => match wait_head s t with Some d => walk_heads s f d | None => None end
  end.
Fixpoint collect_cycle (s : state) (fuel : nat) (x cur : nat) (acc : list nat) : option (list nat) :=
  match fuel with
  | O => None
  | S f => match wait_head s cur with
           | Some d => if Nat.eqb d x then Some (rev (cur :: acc)) else collect_cycle s f x d (cur :: acc)
           | None => None
           end
  end.
(* a cycle of blocked WaitForBuild calls, if there is one *)
Definition find_cycle (g : graph) (s : state) : option (list nat) :=
  let n := g_n g in
  fold_right (fun t r => match r with
                         | Some c => Some c
                         | None => match walk_heads s n t with Some x => collect_cycle s (S n) x x [] | None => None end
                         end) None (seq 0 n).

Definition tail_labels (g : graph) (s : state) : list label :=
  let ids := seq 0 (g_n g) in
  [LStop] ++ (if closed s then map LSendTask (sendq s) else []) ++
  flat_map (fun t => (match wait_head s t with Some d => [LDepFailed t d] | None => [] end) ++ [LAsyncQueueDep t; LAsyncBeginWait t]) ids ++
  match find_cycle g s with Some c => [LTimerCycleCheck c] | None => [] end.

Fixpoint tail_free (g : graph) (hints late : list nat) (exit_first : bool) (fuel : nat) (s : state) (acc : list label) : option (state * list label) :=
  match fuel with
  | O => None
  | S f =>
      let '(s1, acc1) := saturate_nf g hints late (fuel_of g) s acc in
      let next := find (fun l => enabled g s1 l) (tail_labels g s1) in
      match (if exit_first then None else next), enabled g s1 LExitRun with
      | None, true => take g s1 acc1 LExitRun
      | _, _ =>
          match next with
          | Some l => match take g s1 acc1 l with Some (s2, acc2) => tail_free g hints late exit_first f s2 acc2 | None => None end
          | None => None
          end
      end
  end.

Fixpoint tail_cmds (g : graph) (hints late : list nat) (s : state) (acc : list label) (tail : list (nat * bool)) : option (state * list label) :=
  match tail with
  | [] => Some (s, acc)
  | (t, ok) :: r =>
      let '(s1, acc1) := saturate_nf g hints late (fuel_of g) s acc in
      let start := if mem t (building s1) then [] else
                   (if mem t (sendq s1) then [LSendTask t] else []) ++
                   (if mem t (sendq s1) || mem t (actq s1) then [LWorkerTake t] else []) ++ [LBuildStart t] in
      match take_all g s1 acc1 (start ++ [if ok then LBuildOk t Built else LBuildFail t]) with
      | Some (s2, acc2) => tail_cmds g hints late s2 acc2 r
      | None => None
      end
  end.

Definition finish_tail (g : graph) (hints late : list nat) (exit_first : bool) (tail : list (nat * bool)) (s : state) (acc : list label) : option (state * list label) :=
  let '(s1, acc1) := saturate g hints late (fuel_of g) s acc in      (* everything observed has been forwarded *)
  match tail_cmds g hints late s1 acc1 tail with
  | Some (s2, acc2) => tail_free g hints late exit_first (4 * g_n g + 8) s2 acc2
  | None => None
  end.

Definition res_eqb (a b : res) : bool :=
  match a, b with
  | RBuilt x, RBuilt y => st_eqb x y
  | RFailed, RFailed | RDepFailed, RDepFailed => true
  | _, _ => false
  end.
Definition obs_matches (o : obs) (e : ev) : bool :=
  match o, e with
  | OStart a, EvStart b => Nat.eqb a b
  | OEnd a r, EvEnd b q => Nat.eqb a b && res_eqb r q
  | OErr a, EvErr b _ => Nat.eqb a b
  | _, _ => false
  end.
Fixpoint obs_match_all (os : list obs) (es : list ev) : bool :=
  match os, es with
  | [], [] => true
  | o :: os', e :: es' => obs_matches o e && obs_match_all os' es'
  | _, _ => false
  end.

(* the labels of an accepting run for the observed events, if the search finds one *)
Definition late_of (g : graph) (es : list ev) : list nat :=
  flat_map (fun e => match e with EvErr l [] => if g_decl g l then [] else [l] | _ => [] end) es.
(* strategy 0: nothing was lost; 1 and 2: a lost tail, ending as early / as late as possible *)
Definition witness (g : graph) (hints : list nat) (es : list ev) (tail : list (nat * bool)) (strategy : nat) : option (list label) :=
  let late := late_of g es in
  match complete g hints late (init g) [] es with
  | Some (s, acc) =>
      let r := match strategy, tail with
               | O, [] => finish g hints late s acc
               | O, _ => None
               | 1, _ => finish_tail g hints late true tail s acc
               | _, _ => finish_tail g hints late false tail s acc
               end in
      match r with Some (_, acc') => Some (rev acc') | None => None end
  | None => None
  end.

(* accepted: a run of the LTS from the initial state, ending with LExitRun, whose reported stream (what had been forwarded
   to the results channel when the run ended - a prefix of the log) is exactly the observed event sequence and whose exit
   status (non-zero iff progress.failed) is the observed one *)
Definition accepts_with (g : graph) (hints : list nat) (es : list ev) (tail : list (nat * bool)) (exit_nonzero : bool) (strategy : nat) : bool :=
  match witness g hints es tail strategy with
  | Some ls =>
      match run g (init g) ls with
      | Some s => exited s && obs_match_all (rev (reported s)) es && Bool.eqb (failed s) exit_nonzero
      | None => false
      end
  | None => false
  end.
Definition accepts (g : graph) (hints : list nat) (es : list ev) (tail : list (nat * bool)) (exit_nonzero : bool) : bool :=
  accepts_with g hints es tail exit_nonzero 0 || accepts_with g hints es tail exit_nonzero 1 || accepts_with g hints es tail exit_nonzero 2.

(* ------------------------------------------------------------------------------------------------------------------ *)
(* parse.checkSubrepo for a label inside a subrepo.  A package is (subrepo, package name), subrepo 0 = the host repository.
   `label` = the package asked for (inside the subrepo), `definer` = the package of label.SubrepoLabel(), i.e. the one
   whose BUILD file is expected to call subrepo(), `dependent` = the package whose BUILD file is being interpreted and
   contains the subinclude.  If the subrepo is not registered yet checkSubrepo either gives up ("not defined in this
   package yet": the lock-up guard, Gen/StateOrder.v: subrepo_guard_arg says which label it compares with the dependent) or
   goes on to parse(definer:all), which ends in SyncParsePackage(definer): it WAITS if that package is being interpreted. *)
Definition plabel := (nat * nat)%type.
Definition plabel_eqb (a b : plabel) : bool := Nat.eqb (fst a) (fst b) && Nat.eqb (snd a) (snd b).
Inductive cs_result := CSNotYet | CSParse (q : plabel).
Definition in_same_package (dep_original : bool) (a dependent : plabel) : bool := negb dep_original && plabel_eqb a dependent.
Definition check_subrepo (arg : sg_arg) (label definer dependent : plabel) (dep_original : bool) : cs_result :=
  if in_same_package dep_original (match arg with SGDefiner => definer | SGLabel => label end) dependent then CSNotYet
  else CSParse definer.
(* what the user sees: 0 = no subrepo error, 1 = "... is not defined in this package yet", 2 = "Subrepo ... is not defined" *)
Definition subrepo_outcome (registered definer_defines : bool) (label definer dependent : plabel) : nat :=
  if registered then 0
  else match check_subrepo subrepo_guard_arg label definer dependent false with
       | CSNotYet => 1
       | CSParse _ => if definer_defines then 0 else 2
       end.

(* The interpreters of BUILD files as a wait-for system: `interp` = the packages whose BUILD file is being interpreted (each
   by one goroutine, SyncParsePackage's pending-package entry), `waits` = (p, q): the interpreter of p is blocked in
   SyncParsePackage(q) until q's interpretation ends.  A step: the interpreter of `dependent` reaches a subinclude of
   `label`, whose subrepo `definer` is expected to define. *)
Record pstate_w := mkPW { interp : list plabel; waits : list (plabel * plabel) }.
Definition pmem (p : plabel) (l : list plabel) : bool := existsb (plabel_eqb p) l.
Definition sub_step (arg : sg_arg) (s : pstate_w) (label definer dependent : plabel) : pstate_w :=
  if negb (pmem dependent (interp s)) then s else
  match check_subrepo arg label definer dependent false with
  | CSNotYet => mkPW (filter (fun p => negb (plabel_eqb p dependent)) (interp s)) (waits s)     (* the interpretation fails and ends *)
  | CSParse q => if pmem q (interp s) then mkPW (interp s) ((dependent, q) :: waits s)          (* blocked until q is done *)
                 else mkPW (q :: interp s) (waits s)                                             (* this goroutine interprets q itself *)
  end.
Fixpoint sub_run (arg : sg_arg) (s : pstate_w) (steps : list (plabel * plabel * plabel)) : pstate_w :=
  match steps with
  | [] => s
  | (l, d, dep) :: r => sub_run arg (sub_step arg s l d dep) r
  end.

(* ---- correspondence cases ---- *)
Inductive case :=
| CRun (g : graph) (hints : list nat) (events : list ev) (tail : list (nat * bool)) (exit_nonzero : bool)
  (* tail: commands that ran according to the action log but have no final result in the observed stream: (target, succeeded) *)
| CSub (registered definer_defines : bool) (label definer dependent : plabel) (observed : nat).
  (* a BUILD file with a subinclude of a subrepo target: which message plz ended with *)

Definition check (c : case) : bool :=
  match c with
  | CRun g h es tl x => accepts g h es tl x
  | CSub reg def l d dep o => Nat.eqb (subrepo_outcome reg def l d dep) o
  end.

(* graphs as the harness prints them *)
Definition graph_of (pkgs : list nat) (deps : list (list nat)) (decl : list bool) (pkg_ok : list bool)
           (req : list nat) (keep_going : bool) (threads : nat) : graph :=
  mkGraph (length pkgs) (fun t => nth t pkgs 0) (fun t => nth t deps []) (fun t => nth t decl false)
          (fun p => nth p pkg_ok false) req keep_going threads.
