(* C15 - the concurrent awaitable map.  Executable model of src/cmap/cmap.go (Map, shard) and of
   ErrMap.GetOrSet (src/cmap/cerrmap.go).  No proofs here.

   What is modelled
     - the critical sections of shard.Set / LazySet / Get (RLock section, then Lock section) /
       Contains / Values, one Gallina function each (named sec_...), following the Go code branch by branch;
     - channels: `make(chan struct{})` = a fresh number, `close(ch)` = membership in `closed`;
     - the API wrappers of Map (api_exec), ErrMap.GetOrSet, and the client pattern
       "GetOrWait; <-wait; Get" as small thread programs over those sections (tstep);
     - all interleavings: a schedule is a list of thread numbers, every entry lets that thread run
       its next critical section (run).
   What is not modelled (assumptions, see props/C15.json): sync.RWMutex makes every critical
   section atomic with respect to the sections of the same shard, sections of different shards touch
   disjoint state (so one global table with a shard function `sh` is equivalent), the Go memory model,
   the Limiter of ErrMap, Range (same section as Values). *)
From PlzV Require Import Base.Harness.

Definition key := N.
Definition chan := N.

(* Go map[K]... as an association list: m[k] and m[k] = a *)
Fixpoint afind {A} (k : key) (l : list (key * A)) : option A :=
  match l with
  | [] => None
  | (k', a) :: r => if N.eqb k k' then Some a else afind k r
  end.

Fixpoint aset {A} (k : key) (a : A) (l : list (key * A)) : list (key * A) :=
  match l with
  | [] => [(k, a)]
  | (k', a') :: r => if N.eqb k k' then (k', a) :: r else (k', a') :: aset k a r
  end.

Definition cmem (c : chan) (l : list chan) : bool := existsb (N.eqb c) l.

Section Cmap.
Variable V : Type.
Variable zero : V.                (* the zero value of V *)
Variable has_err : V -> bool.     (* ErrMap: v.Err != nil ; plain Map: never used *)
Variable sh : key -> N.           (* hasher(key) & mask *)

(* awaitableValue{Val, Wait}: Wait == nil <-> Val v ; placeholder {zero, ch} = Waiting ch *)
Inductive entry := Val (v : V) | Waiting (c : chan).

(* alloc is a ghost field: which channel was made for which key (never read by the sections). *)
Record state := mkState { tbl : list (key * entry); closed : list chan; next : chan; alloc : list (chan * key) }.

Definition init : state := mkState [] [] 0%N [].

(* (val, wait, first) *)
Definition gres := (V * option chan * bool)%type.

(* shard.Set(key, val, overwrite) *)
Definition sec_set (k : key) (v : V) (ow : bool) (s : state) : state * bool :=
  match afind k (tbl s) with
  | Some (Val _) =>
      if negb ow then (s, false)
      else (mkState (aset k (Val v) (tbl s)) (closed s) (next s) (alloc s), true)
  | Some (Waiting c) =>
      (mkState (aset k (Val v) (tbl s)) (c :: closed s) (next s) (alloc s), true)
  | None => (mkState (aset k (Val v) (tbl s)) (closed s) (next s) (alloc s), true)
  end.

(* shard.LazySet(key, f) where f() = v ; the bool says inserted (= f was called) *)
Definition sec_lazyset (k : key) (v : V) (s : state) : state * (V * bool) :=
  match afind k (tbl s) with
  | Some (Val e) => (s, (e, false))
  | Some (Waiting c) =>
      (mkState (aset k (Val v) (tbl s)) (c :: closed s) (next s) (alloc s), (v, true))
  | None => (mkState (aset k (Val v) (tbl s)) (closed s) (next s) (alloc s), (v, true))
  end.

Definition entry_res (e : entry) : gres :=
  match e with
  | Val v => (v, None, false)
  | Waiting c => (zero, Some c, false)
  end.

(* shard.Get, first section (RLock): Some = returned here, None = fall through *)
Definition sec_get_fast (k : key) (s : state) : option gres :=
  match afind k (tbl s) with
  | Some e => Some (entry_res e)
  | None => None
  end.

(* shard.Get, second section (Lock) *)
Definition sec_get_slow (k : key) (s : state) : state * gres :=
  match afind k (tbl s) with
  | Some e => (s, entry_res e)
  | None =>
      let c := next s in
      (mkState (aset k (Waiting c) (tbl s)) (closed s) (N.succ c) ((c, k) :: alloc s),
       (zero, Some c, true))
  end.

(* shard.Contains *)
Definition sec_contains (k : key) (s : state) : bool :=
  match afind k (tbl s) with
  | Some (Val _) => true
  | _ => false
  end.

(* shard.Values of shard i (Go map order is arbitrary: compared up to permutation) *)
Fixpoint values_of (i : N) (t : list (key * entry)) : list V :=
  match t with
  | [] => []
  | (k, Val v) :: r => if N.eqb (sh k) i then v :: values_of i r else values_of i r
  | (_, Waiting _) :: r => values_of i r
  end.
Definition sec_values (i : N) (s : state) : list V := values_of i (tbl s).

(* ---- the atomic operations (one per linearisation point) ---- *)
Inductive prim :=
| PSet (k : key) (v : V) (ow : bool)
| PLazy (k : key) (v : V)
| PGet (k : key)
| PContains (k : key)
| PValues (i : N).

Inductive pres :=
| RBool (b : bool)
| RLazy (v : V) (b : bool)
| RGet (r : gres)
| RVals (l : list V).

Definition sec_prim (p : prim) (s : state) : state * pres :=
  match p with
  | PSet k v ow => let (s', b) := sec_set k v ow s in (s', RBool b)
  | PLazy k v => let (s', r) := sec_lazyset k v s in (s', RLazy (fst r) (snd r))
  | PGet k => match sec_get_fast k s with
              | Some r => (s, RGet r)
              | None => let (s', r) := sec_get_slow k s in (s', RGet r)
              end
  | PContains k => (s, RBool (sec_contains k s))
  | PValues i => (s, RVals (sec_values i s))
  end.

(* ---- the sequential specification: a map key -> value, the awaited keys with their wait handle ---- *)
Record sstate := mkS { smap : list (key * V); swait : list (key * chan); snext : chan; sclosed : list chan }.
Definition sinit : sstate := mkS [] [] 0%N [].

Fixpoint svalues (i : N) (m : list (key * V)) : list V :=
  match m with
  | [] => []
  | (k, v) :: r => if N.eqb (sh k) i then v :: svalues i r else svalues i r
  end.

(* adding k (it was absent) releases whoever waits for k *)
Definition sadd (k : key) (v : V) (sp : sstate) : sstate :=
  mkS (aset k v (smap sp)) (swait sp) (snext sp)
      (match afind k (swait sp) with Some c => c :: sclosed sp | None => sclosed sp end).

Definition spec_prim (p : prim) (sp : sstate) : sstate * pres :=
  match p with
  | PSet k v ow =>
      match afind k (smap sp) with
      | Some _ => if ow then (mkS (aset k v (smap sp)) (swait sp) (snext sp) (sclosed sp), RBool true)
                  else (sp, RBool false)
      | None => (sadd k v sp, RBool true)
      end
  | PLazy k v =>
      match afind k (smap sp) with
      | Some e => (sp, RLazy e false)
      | None => (sadd k v sp, RLazy v true)
      end
  | PGet k =>
      match afind k (smap sp) with
      | Some v => (sp, RGet (v, None, false))
      | None =>
          match afind k (swait sp) with
          | Some c => (sp, RGet (zero, Some c, false))
          | None => let c := snext sp in
                    (mkS (smap sp) (aset k c (swait sp)) (N.succ c) (sclosed sp), RGet (zero, Some c, true))
          end
      end
  | PContains k => (sp, RBool (match afind k (smap sp) with Some _ => true | None => false end))
  | PValues i => (sp, RVals (svalues i (smap sp)))
  end.

(* ---- the API of Map / ErrMap over any executor of the atomic operations ---- *)
Inductive aop :=
| AAdd (k : key) (v : V)
| AAddOrGet (k : key) (v : V)       (* f() = v *)
| ASet (k : key) (v : V)
| AGet (k : key)
| AGetOrWait (k : key)
| AContains (k : key)
| AValues                           (* all shards, one section per shard *)
| AValuesShard (i : N)              (* the part of a Values() call that reads shard i *)
| AGetOrSet (k : key) (v : V).      (* ErrMap.GetOrSet, f() = v (v carries val and err) *)

Inductive ares :=
| ABool (b : bool)
| ALazy (v : V) (b : bool)
| AUnit
| AVal (v : V)
| AWait (r : gres)
| AVals (l : list V)
| AGos (v : V) (called : bool)      (* returned value, whether f ran *)
| ABlocked.                         (* <-wait would block: nobody has added the key *)

Section Api.
Variable X : Type.
Variable exec : prim -> X -> X * pres.
Variable isclosed : X -> chan -> bool.
Variable nsh : nat.                 (* len(m.shards) *)

Definition get_of (r : pres) : gres := match r with RGet g => g | _ => (zero, None, false) end.
Definition vals_of (r : pres) : list V := match r with RVals l => l | _ => [] end.

Fixpoint all_values (n : nat) (i : N) (x : X) : X * list V :=
  match n with
  | O => (x, [])
  | S n' => let (x1, r) := exec (PValues i) x in
            let (x2, l) := all_values n' (N.succ i) x1 in (x2, vals_of r ++ l)
  end.

Definition api_exec (o : aop) (x : X) : X * ares :=
  match o with
  | AAdd k v => let (x', r) := exec (PSet k v false) x in
                (x', ABool (match r with RBool b => b | _ => false end))
  | AAddOrGet k v => let (x', r) := exec (PLazy k v) x in
                     (x', match r with RLazy e b => ALazy e b | _ => AUnit end)
  | ASet k v => let (x', _) := exec (PSet k v true) x in (x', AUnit)
  | AGet k => let (x', r) := exec (PGet k) x in (x', AVal (fst (fst (get_of r))))
  | AGetOrWait k => let (x', r) := exec (PGet k) x in (x', AWait (get_of r))
  | AContains k => let (x', r) := exec (PContains k) x in
                   (x', ABool (match r with RBool b => b | _ => false end))
  | AValues => let (x', l) := all_values nsh 0%N x in (x', AVals l)
  | AValuesShard i => let (x', r) := exec (PValues i) x in (x', AVals (vals_of r))
  | AGetOrSet k v =>
      let (x1, r) := exec (PGet k) x in
      let g := get_of r in
      if has_err (fst (fst g)) then (x1, AGos (fst (fst g)) false)
      else if snd g then                                  (* first: val, err := f(); m.m.Set(...) *)
        let (x2, _) := exec (PSet k v true) x1 in (x2, AGos v true)
      else match snd (fst g) with
           | Some c => if isclosed x1 c                   (* <-wait; return m.Get(key) *)
                       then let (x2, r2) := exec (PGet k) x1 in (x2, AGos (fst (fst (get_of r2))) false)
                       else (x1, ABlocked)
           | None => (x1, AGos (fst (fst g)) false)
           end
  end.

Fixpoint api_run (ops : list aop) (x : X) : list ares :=
  match ops with
  | [] => []
  | o :: r => let (x', a) := api_exec o x in a :: api_run r x'
  end.
End Api.

Definition model_api := api_exec state sec_prim (fun s c => cmem c (closed s)).
Definition spec_api := api_exec sstate spec_prim (fun s c => cmem c (sclosed s)).

(* ---- threads and interleavings ---- *)
(* what the caller does with the result of shard.Get *)
Inductive kont :=
| KDone                             (* Map.Get / Map.GetOrWait: return it *)
| KWaitGet                          (* client pattern: if wait != nil { <-wait; Get(key) } *)
| KGetOrSet (v : V).                (* ErrMap.GetOrSet with f() = v *)

Inductive instr :=
| IPrim (p : prim)                  (* Set / LazySet / Contains / Values(shard): one section *)
| IGetFast (k : key) (q : kont)     (* shard.Get, RLock section *)
| IGetSlow (k : key) (q : kont)     (* shard.Get, Lock section *)
| IWait (c : chan) (k : key)        (* <-c, c obtained from GetOrWait(k) *)
| IRunF (k : key).                  (* GetOrSet: val, err := f() *)

Definition thread := list instr.

Record event := mkEv { ev_tid : nat; ev_prim : prim; ev_res : pres }.
(* g_log: newest first; g_runs: keys for which GetOrSet's f has run, newest first *)
Record global := mkG { g_st : state; g_log : list event; g_runs : list key }.

Definition after_get (q : kont) (k : key) (r : gres) : list instr :=
  match q with
  | KDone => []
  | KWaitGet => match snd (fst r) with
                | Some c => [IWait c k; IGetFast k KDone]
                | None => []
                end
  | KGetOrSet v =>
      if has_err (fst (fst r)) then []
      else if snd r then [IRunF k; IPrim (PSet k v true)]
      else match snd (fst r) with
           | Some c => [IWait c k; IGetFast k KDone]
           | None => []
           end
  end.

(* one step of one thread; None = the thread has finished or is blocked on an open channel *)
Definition tstep (tid : nat) (g : global) (t : thread) : option (thread * global) :=
  match t with
  | [] => None
  | IPrim p :: rest =>
      let (s', r) := sec_prim p (g_st g) in
      Some (rest, mkG s' (mkEv tid p r :: g_log g) (g_runs g))
  | IGetFast k q :: rest =>
      match sec_get_fast k (g_st g) with
      | Some r => Some (after_get q k r ++ rest, mkG (g_st g) (mkEv tid (PGet k) (RGet r) :: g_log g) (g_runs g))
      | None => Some (IGetSlow k q :: rest, g)
      end
  | IGetSlow k q :: rest =>
      let (s', r) := sec_get_slow k (g_st g) in
      Some (after_get q k r ++ rest, mkG s' (mkEv tid (PGet k) (RGet r) :: g_log g) (g_runs g))
  | IWait c k :: rest =>
      if cmem c (closed (g_st g)) then Some (rest, g) else None
  | IRunF k :: rest => Some (rest, mkG (g_st g) (g_log g) (k :: g_runs g))
  end.

Fixpoint step_at (n tid : nat) (ths : list thread) (g : global) : option (list thread * global) :=
  match ths with
  | [] => None
  | t :: r =>
      match n with
      | O => match tstep tid g t with
             | Some (t', g') => Some (t' :: r, g')
             | None => None
             end
      | S n' => match step_at n' tid r g with
                | Some (r', g') => Some (t :: r', g')
                | None => None
                end
      end
  end.

Definition config := (list thread * global)%type.

Definition cstep (c : config) (n : nat) : config :=
  match step_at n n (fst c) (snd c) with
  | Some c' => c'
  | None => c
  end.

Definition run (sched : list nat) (c : config) : config := fold_left cstep sched c.

(* the thread programs of the API operations *)
Fixpoint values_instrs (n : nat) (i : N) : list instr :=
  match n with
  | O => []
  | S n' => IPrim (PValues i) :: values_instrs n' (N.succ i)
  end.

Inductive top :=                    (* thread-level operation *)
| TApi (o : aop)
| TWaitGet (k : key).

Definition expand (nsh : nat) (o : top) : list instr :=
  match o with
  | TApi (AAdd k v) => [IPrim (PSet k v false)]
  | TApi (AAddOrGet k v) => [IPrim (PLazy k v)]
  | TApi (ASet k v) => [IPrim (PSet k v true)]
  | TApi (AGet k) => [IGetFast k KDone]
  | TApi (AGetOrWait k) => [IGetFast k KDone]
  | TApi (AContains k) => [IPrim (PContains k)]
  | TApi AValues => values_instrs nsh 0%N
  | TApi (AValuesShard i) => [IPrim (PValues i)]
  | TApi (AGetOrSet k v) => [IGetFast k (KGetOrSet v)]
  | TWaitGet k => [IGetFast k KWaitGet]
  end.

Definition start (nsh : nat) (progs : list (list top)) : config :=
  (map (fun p => concat (map (expand nsh) p)) progs, mkG init [] []).

End Cmap.

Arguments Val {V}. Arguments Waiting {V}.
Arguments PSet {V}. Arguments PLazy {V}. Arguments PGet {V}. Arguments PContains {V}. Arguments PValues {V}.
Arguments RBool {V}. Arguments RLazy {V}. Arguments RGet {V}. Arguments RVals {V}.
Arguments AAdd {V}. Arguments AAddOrGet {V}. Arguments ASet {V}. Arguments AGet {V}. Arguments AGetOrWait {V}.
Arguments AContains {V}. Arguments AValues {V}. Arguments AValuesShard {V}. Arguments AGetOrSet {V}.
Arguments ABool {V}. Arguments ALazy {V}. Arguments AUnit {V}. Arguments AVal {V}. Arguments AWait {V}.
Arguments AVals {V}. Arguments AGos {V}. Arguments ABlocked {V}.
Arguments KDone {V}. Arguments KWaitGet {V}. Arguments KGetOrSet {V}.
Arguments IPrim {V}. Arguments IGetFast {V}. Arguments IGetSlow {V}. Arguments IWait {V}. Arguments IRunF {V}.
Arguments TApi {V}. Arguments TWaitGet {V}.
Arguments mkEv {V}. Arguments ev_tid {V}. Arguments ev_prim {V}. Arguments ev_res {V}.
Arguments mkState {V}. Arguments tbl {V}. Arguments closed {V}. Arguments next {V}. Arguments alloc {V}.
Arguments mkS {V}. Arguments smap {V}. Arguments swait {V}. Arguments snext {V}. Arguments sclosed {V}.
Arguments mkG {V}. Arguments g_st {V}. Arguments g_log {V}. Arguments g_runs {V}.

(* ================= correspondence cases ================= *)
(* Channels are observed by identity only: the harness numbers them in the order in which the
   operations first return them; the model's numbers are renamed the same way (ren: model channel
   at position i has observed number i). *)
Fixpoint index_of (c : chan) (l : list chan) (i : N) : option N :=
  match l with
  | [] => None
  | x :: r => if N.eqb c x then Some i else index_of c r (N.succ i)
  end.

Definition canon (c : chan) (ren : list chan) : chan * list chan :=
  match index_of c ren 0%N with
  | Some i => (i, ren)
  | None => (N.of_nat (length ren), ren ++ [c])
  end.

Definition canon_res {V} (a : ares V) (ren : list chan) : ares V * list chan :=
  match a with
  | AWait (v, Some c, f) => let (i, ren') := canon c ren in (AWait (v, Some i, f), ren')
  | _ => (a, ren)
  end.

Section Check.
Variable V : Type.
Variable zero : V.
Variable has_err : V -> bool.
Variable veqb : V -> V -> bool.
Variable vnorm : list V -> list V.     (* canonical order of a Values() result *)

Definition gres_eqb (a b : gres V) : bool :=
  veqb (fst (fst a)) (fst (fst b)) && option_eqb N.eqb (snd (fst a)) (snd (fst b)) && Bool.eqb (snd a) (snd b).

Definition ares_eqb (a b : ares V) : bool :=
  match a, b with
  | ABool x, ABool y => Bool.eqb x y
  | ALazy v x, ALazy w y => veqb v w && Bool.eqb x y
  | AUnit, AUnit => true
  | AVal v, AVal w => veqb v w
  | AWait r, AWait q => gres_eqb r q
  | AVals l, AVals m => list_eqb veqb (vnorm l) (vnorm m)
  | AGos v x, AGos w y => veqb v w && Bool.eqb x y
  | ABlocked, ABlocked => true
  | _, _ => false
  end.

(* one observed step: the operation, what it returned, and (when the harness looked) which of the
   channels seen so far are closed after it *)
Definition obs := (aop V * ares V * option (list bool))%type.

Section Run.
Variable X : Type.
Variable exec : aop V -> X -> X * ares V.
Variable isclosed : X -> chan -> bool.

Fixpoint check_run (h : list obs) (x : X) (ren : list chan) : bool :=
  match h with
  | [] => true
  | (o, a, fl) :: r =>
      let (x', a') := exec o x in
      let (a'', ren') := canon_res a' ren in
      ares_eqb a'' a
      && match fl with
         | Some l => list_eqb Bool.eqb (map (isclosed x') ren') l
         | None => true
         end
      && check_run r x' ren'
  end.
End Run.

Definition check_hist (nsh : nat) (shards : list (key * N)) (h : list obs) : bool :=
  let sh := fun k => match afind k shards with Some i => i | None => 0%N end in
  check_run (state V) (model_api V zero has_err sh nsh) (fun s c => cmem c (closed s)) h (init V) []
  && check_run (sstate V) (spec_api V zero has_err sh nsh) (fun s c => cmem c (sclosed s)) h (sinit V) [].
End Check.

(* insertion sort on N, the canonical order of Values() of a Map[_, int] *)
Fixpoint ninsert (x : N) (l : list N) : list N :=
  match l with
  | [] => [x]
  | y :: r => if N.leb x y then x :: l else y :: ninsert x r
  end.
Definition nsort (l : list N) : list N := fold_right ninsert [] l.

(* ErrMap values: (error code, value); error code 0 = nil *)
Definition errv := (N * N)%type.
Definition errv_eqb (a b : errv) : bool := N.eqb (fst a) (fst b) && N.eqb (snd a) (snd b).
Definition errv_has_err (a : errv) : bool := negb (N.eqb (fst a) 0%N).

(* Observed steps, monomorphic so that the generated case files elaborate quickly. *)
Inductive mstep :=
| MAdd (k v : N) (b : bool)
| MAddOrGet (k v r : N) (b : bool)                  (* f() = v, returned (r, b) *)
| MSet (k v : N)
| MGet (k r : N)
| MWait (k v : N) (oc : option N) (first : bool)    (* GetOrWait *)
| MContains (k : N) (b : bool)
| MValues (l : list N)
| MValuesShard (i : N) (l : list N).

Definition mstep_obs (fl : bool) (x : mstep * list bool) : aop N * ares N * option (list bool) :=
  let o := if fl then Some (snd x) else None in
  match fst x with
  | MAdd k v b => (AAdd k v, ABool b, o)
  | MAddOrGet k v r b => (AAddOrGet k v, ALazy r b, o)
  | MSet k v => (ASet k v, AUnit, o)
  | MGet k r => (AGet k, AVal r, o)
  | MWait k v oc f => (AGetOrWait k, AWait (v, oc, f), o)
  | MContains k b => (AContains k, ABool b, o)
  | MValues l => (AValues, AVals l, o)
  | MValuesShard i l => (AValuesShard i, AVals l, o)
  end.

(* ErrMap[int,int]: values are errV{Err, Val} = (error code, value) *)
Inductive estep :=
| EAdd (k v : N) (b : bool)
| EAddOrGet (k v re rv : N) (b : bool)              (* returned (rv, b, error re) *)
| ESet (k v : N)
| ESetError (k e : N)
| EGet (k re rv : N)
| EGetOrSet (k fe fv : N) (r : option (N * N * bool)).   (* f() = (fv, fe); None = blocked, Some (re, rv, f ran) *)

Definition estep_obs (x : estep) : aop errv * ares errv * option (list bool) :=
  match x with
  | EAdd k v b => (AAdd k (0%N, v), ABool b, None)
  | EAddOrGet k v re rv b => (AAddOrGet k (0%N, v), ALazy (re, rv) b, None)
  | ESet k v => (ASet k (0%N, v), AUnit, None)
  | ESetError k e => (ASet k (e, 0%N), AUnit, None)
  | EGet k re rv => (AGet k, AVal (re, rv), None)
  | EGetOrSet k fe fv r =>
      (AGetOrSet k (fe, fv),
       match r with Some (re, rv, c) => AGos (re, rv) c | None => ABlocked end, None)
  end.

Inductive case :=
| CMap (nsh : nat) (shards : list (N * N)) (flags : bool) (h : list (mstep * list bool))
    (* a sequential history of Map[int,int] (or the linearisation found for a concurrent one);
       flags: the list next to each step says which observed channels are closed after it *)
| CErr (nsh : nat) (shards : list (N * N)) (h : list estep).
    (* a sequential history of ErrMap[int,int] *)

Definition check (c : case) : bool :=
  match c with
  | CMap nsh shards fl h =>
      check_hist N 0%N (fun _ => false) N.eqb nsort nsh shards (map (mstep_obs fl) h)
  | CErr nsh shards h =>
      check_hist errv (0%N, 0%N) errv_has_err errv_eqb (fun l => l) nsh shards (map estep_obs h)
  end.
