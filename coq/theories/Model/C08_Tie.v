(* C08 / C07 - the correspondence check instantiated with the program regenerated from the source. *)
From PlzV Require Import Base.Harness Model.C08 Gen.RuleHashProg.

Definition case := C08.case.
Definition check : case -> bool := check_with RuleHashProg.prog.
