(* C21 - glob().  Executable model of src/fs/glob.go (Globber.Glob / glob / walkDir / shouldExcludeMatch /
   patternToMatcher / toRegexString / isHidden / isInDirectories / isBathPathOf), and the reference
   (segment-wise) semantics `glob_spec` the property compares it with.  No proofs here.

   Go library functions are modelled by their documented behaviour on the inputs the harness produces:
   filepath.Match and regexp (for the fragment toRegexString can emit) as "parse to tokens, then a backtracking
   matcher"; io/fs.WalkDir (lexical order, SkipDir semantics); filepath.Join/Clean/Base/Dir on relative paths. *)
From PlzV Require Import Base.Harness.

(* ------------------------------------------------------------------------------------------- bytes *)
Definition NL : N := 10.      Definition HASH : N := 35.    Definition DOLLAR : N := 36.
Definition LPAR : N := 40.    Definition RPAR : N := 41.    Definition STAR : N := 42.
Definition PLUS : N := 43.    Definition DASH : N := 45.    Definition DOT : N := 46.
Definition SLASH : N := 47.   Definition QM : N := 63.      Definition LBR : N := 91.
Definition BSL : N := 92.     Definition RBR : N := 93.     Definition CARET : N := 94.
Definition LBRACE : N := 123. Definition BAR : N := 124.    Definition RBRACE : N := 125.

(* ------------------------------------------------------------------------------------------- strings *)
Fixpoint prefixb (p a : str) : bool :=                 (* strings.HasPrefix(a, p) *)
  match p, a with
  | [], _ => true
  | _ :: _, [] => false
  | y :: p', x :: a' => N.eqb x y && prefixb p' a'
  end.

Definition suffixb (p a : str) : bool := prefixb (rev p) (rev a).     (* strings.HasSuffix(a, p) *)

Fixpoint contains (needle a : str) : bool :=            (* strings.Contains(a, needle) *)
  prefixb needle a || match a with [] => false | _ :: a' => contains needle a' end.

Definition has_slash (a : str) : bool := existsb (N.eqb SLASH) a.

Definition trim_prefix (p a : str) : str := if prefixb p a then skipn (length p) a else a.

(* strings.ReplaceAll(a, old, new) for a non-empty `old`: leftmost, non-overlapping *)
Fixpoint replace_from (old new : str) (skip : nat) (a : str) : str :=
  match a with
  | [] => []
  | c :: r =>
      match skip with
      | S k => replace_from old new k r
      | O => if prefixb old a then new ++ replace_from old new (length old - 1) r
             else c :: replace_from old new O r
      end
  end.
Definition replace_all (old new a : str) : str := replace_from old new O a.

(* ------------------------------------------------------------------------------------------- paths *)
Fixpoint split_on (c : N) (a : str) : list str :=       (* strings.Split(a, c): never empty *)
  match a with
  | [] => [[]]
  | x :: r => if N.eqb x c then [] :: split_on c r
              else match split_on c r with
                   | h :: t => (x :: h) :: t
                   | [] => [[x]]
                   end
  end.

Fixpoint intercalate (segs : list str) : str :=
  match segs with
  | [] => []
  | [a] => a
  | a :: r => a ++ SLASH :: intercalate r
  end.

(* filepath.Clean on the component list of a relative or absolute path *)
Fixpoint clean_comps (abs : bool) (segs : list str) (out : list str) : list str :=   (* out: reversed *)
  match segs with
  | [] => rev out
  | c :: r =>
      if str_eqb c [] || str_eqb c (s ".") then clean_comps abs r out
      else if str_eqb c (s "..") then
        match out with
        | [] => if abs then clean_comps abs r out else clean_comps abs r [c]
        | p :: o => if str_eqb p (s "..") then clean_comps abs r (c :: out) else clean_comps abs r o
        end
      else clean_comps abs r (c :: out)
  end.

Definition clean (a : str) : str :=
  match a with
  | [] => s "."
  | x :: _ =>
      let abs := N.eqb x SLASH in
      let body := intercalate (clean_comps abs (split_on SLASH a) []) in
      if abs then SLASH :: body else match body with [] => s "." | _ => body end
  end.

(* filepath.Join(a, b): empty elements are ignored, the result is cleaned; all empty -> "" *)
Definition join (a b : str) : str :=
  match a, b with
  | [], [] => []
  | [], _ => clean b
  | _, [] => clean a
  | _, _ => clean (a ++ SLASH :: b)
  end.

(* io/fs path.Join(dir, name) inside WalkDir, for a clean dir and a plain entry name *)
Definition pjoin (dir name : str) : str := if str_eqb dir (s ".") then name else dir ++ SLASH :: name.

Definition last_comp (a : str) : str := last (split_on SLASH a) [].

(* filepath.Base on a clean path *)
Definition base (a : str) : str :=
  match a with
  | [] => s "."
  | _ => match last_comp a with [] => s "/" | b => b end
  end.

(* filepath.Dir on a clean path *)
Definition dirname (a : str) : str :=
  if has_slash a then clean (intercalate (removelast (split_on SLASH a)) ++ [SLASH]) else s ".".

(* ------------------------------------------------------------------------------------------- matcher tokens *)
Inductive single :=
| SLit (c : N)
| SNonSep                                  (* filepath.Match `?` and what `*` repeats: any byte but '/' *)
| SAnyNoNL                                 (* regexp `.` (no s flag): any byte but '\n' *)
| SClass (neg : bool) (items : list (N * N)).

Inductive tok :=
| T1 (x : single)
| TStar (x : single)
| TOptDirs.                                (* regexp (.*/)? *)

Definition in_ranges (c : N) (items : list (N * N)) : bool :=
  existsb (fun r => N.leb (fst r) c && N.leb c (snd r)) items.

Definition smatch (x : single) (c : N) : bool :=
  match x with
  | SLit d => N.eqb c d
  | SNonSep => negb (N.eqb c SLASH)
  | SAnyNoNL => negb (N.eqb c NL)
  | SClass neg items => xorb neg (in_ranges c items)
  end.

(* anchored match of the whole string (filepath.Match; regexp ^...$ + MatchString) *)
Fixpoint tmatch (ts : list tok) (a : str) : bool :=
  match ts with
  | [] => match a with [] => true | _ => false end
  | T1 x :: r => match a with c :: a' => smatch x c && tmatch r a' | [] => false end
  | TStar x :: r =>
      (fix star (a : str) : bool :=
         tmatch r a || match a with c :: a' => smatch x c && star a' | [] => false end) a
  | TOptDirs :: r =>
      tmatch r a ||
      (fix go (a : str) : bool :=
         match a with
         | [] => false
         | c :: a' => (N.eqb c SLASH && tmatch r a') || (negb (N.eqb c NL) && go a')
         end) a
  end.

(* --- character classes: '[' has been consumed.  filepath.Match: [^]{range}+ with \-escapes (bs = true);
       regexp: the same shape, only the escapes \. and \+ (which toRegexString produces), '[' rejected
       (bs = false; richer regexp classes -> None) *)
Inductive cst := CLo (esc : bool) | CAfter (lo : N) | CHi (lo : N) (esc : bool).

Fixpoint pclass (bs : bool) (st : cst) (acc : list (N * N)) (a : str) : option (list (N * N) * str) :=
  match a with
  | [] => None
  | c :: r =>
      let lo_step acc :=
        if N.eqb c RBR then match acc with [] => None | _ => Some (rev acc, r) end
        else if N.eqb c DASH then None
        else if N.eqb c BSL then pclass bs (CLo true) acc r
        else if negb bs && N.eqb c LBR then None
        else pclass bs (CAfter c) acc r in
      match st with
      | CLo true => if bs || N.eqb c DOT || N.eqb c PLUS then pclass bs (CAfter c) acc r else None
      | CLo false => lo_step acc
      | CAfter lo => if N.eqb c DASH then pclass bs (CHi lo false) acc r else lo_step ((lo, lo) :: acc)
      | CHi lo true => if bs || ((N.eqb c DOT || N.eqb c PLUS) && N.leb lo c) then pclass bs (CLo false) ((lo, c) :: acc) r else None
      | CHi lo false =>
          if N.eqb c RBR || N.eqb c DASH then None
          else if N.eqb c BSL then pclass bs (CHi lo true) acc r
          else if negb bs && (N.eqb c LBR || N.ltb c lo) then None
          else pclass bs (CLo false) ((lo, c) :: acc) r
      end
  end.

Definition pclass_start (bs : bool) (a : str) : option (bool * list (N * N) * str) :=
  match a with
  | c :: r => if N.eqb c CARET
              then match pclass bs (CLo false) [] r with Some (it, rest) => Some (true, it, rest) | None => None end
              else match pclass bs (CLo false) [] a with Some (it, rest) => Some (false, it, rest) | None => None end
  | [] => None
  end.

(* --- filepath.Match pattern syntax; None = ErrBadPattern *)
Fixpoint parse_glob (fuel : nat) (a : str) : option (list tok) :=
  match fuel with
  | O => None
  | S f =>
      match a with
      | [] => Some []
      | c :: r =>
          if N.eqb c STAR then option_map (cons (TStar SNonSep)) (parse_glob f r)
          else if N.eqb c QM then option_map (cons (T1 SNonSep)) (parse_glob f r)
          else if N.eqb c BSL then
            match r with
            | [] => None
            | d :: r' => option_map (cons (T1 (SLit d))) (parse_glob f r')
            end
          else if N.eqb c LBR then
            match pclass_start true r with
            | Some (neg, items, rest) => option_map (cons (T1 (SClass neg items))) (parse_glob f rest)
            | None => None
            end
          else option_map (cons (T1 (SLit c))) (parse_glob f r)
      end
  end.

(* --- the regexp fragment toRegexString can emit from metacharacter-free input.  `a` is the text after the
       leading '^'; None = "not in the modelled fragment" (or a regexp.Compile error). *)
Definition is_rep (c : N) : bool := N.eqb c STAR || N.eqb c PLUS || N.eqb c QM.
Definition next_is_rep (a : str) : bool := match a with c :: _ => is_rep c | [] => false end.

Fixpoint parse_re (fuel depth : nat) (a : str) : option (list tok) :=
  match fuel with
  | O => None
  | S f =>
      (* one atom parsed: an optional `*` makes it a star; no further repetition operator may follow *)
      let rep (x : single) (rest : str) : option (list tok) :=
        match rest with
        | c :: rest' =>
            if N.eqb c STAR then (if next_is_rep rest' then None else option_map (cons (TStar x)) (parse_re f depth rest'))
            else if is_rep c then None
            else option_map (cons (T1 x)) (parse_re f depth rest)
        | [] => None          (* the closing '$' is missing *)
        end in
      match a with
      | [] => None
      | c :: r =>
          if N.eqb c DOLLAR then match r, depth with [], O => Some [] | _, _ => None end
          else if N.eqb c BSL then
            match r with
            | d :: r' => if N.eqb d PLUS || N.eqb d DOT then rep (SLit d) r' else None
            | [] => None
            end
          else if N.eqb c DOT then rep SAnyNoNL r
          else if N.eqb c LBR then
            match pclass_start false r with
            | Some (neg, items, rest) => rep (SClass neg items) rest
            | None => None
            end
          else if N.eqb c LPAR then
            if prefixb (s ".*/)?") r then
              let rest := skipn 5 r in
              if next_is_rep rest then None else option_map (cons TOptDirs) (parse_re f depth rest)
            else if next_is_rep r then None
            (* a capturing group with no alternation and no repetition matches what its body matches *)
            else parse_re f (S depth) r
          else if N.eqb c RPAR then
            match depth with
            | O => None
            | S d => if next_is_rep r then None else parse_re f d r
            end
          else if N.eqb c LBRACE || N.eqb c RBRACE || N.eqb c BAR || N.eqb c CARET
                  || N.eqb c RBR || is_rep c then None
          else rep (SLit c) r
      end
  end.

Definition parse_regex (a : str) : option (list tok) :=
  match a with
  | c :: r => if N.eqb c CARET then parse_re (S (length r)) O r else None
  | [] => None
  end.

(* toRegexString: "^" + pattern + "$", then the six ReplaceAll passes in source order
   (Gen/GlobRegex.v regenerates this table from the source; Proof/C21.v ties the two) *)
Definition rewrites : list (str * str) :=
  [ (s "+", s "\+"); (s ".", s "\."); (s "?", s "."); (s "*", s "[^/]*");
    (s "[^/]*[^/]*", s ".*"); (s "/.*/", s "/(.*/)?") ].

Definition to_regex_string (pattern : str) : str :=
  fold_left (fun acc on => replace_all (fst on) (snd on) acc) rewrites (s "^" ++ pattern ++ s "$").

(* patternToMatcher(root, pattern) *)
Definition pattern_to_matcher (root pattern : str) : option (list tok) :=
  let full := join root pattern in
  if contains (s "**") pattern then parse_regex (to_regex_string full)
  else parse_glob (S (length full)) full.

(* ------------------------------------------------------------------------------------------- the walk *)
Inductive node := File | Sym | Dir (kids : list (str * node)).      (* kids in lexical (ReadDir) order *)

Record walked := Walked { w_files : list str; w_syms : list str; w_subs : list str }.   (* each reversed *)

Definition is_dir (n : node) : bool := match n with Dir _ => true | _ => false end.

Definition is_build_file (bfn : list str) (path : str) : bool := existsb (str_eqb (base path)) bfn.

(* the WalkDirFunc of walkDir: returns the new state and whether it returned filepath.SkipDir *)
Definition visit (bfn : list str) (root path name : str) (n : node) (w : walked) : walked * bool :=
  if is_build_file bfn path && negb (str_eqb (dirname path) root)
  then (Walked (w_files w) (w_syms w) (dirname path :: w_subs w), true)
  else if str_eqb name (s "plz-out") && str_eqb root (s ".") then (w, true)
  else match n with
       | Sym => (Walked (w_files w) (path :: w_syms w) (w_subs w), false)
       | _ => (Walked (path :: w_files w) (w_syms w) (w_subs w), false)
       end.

(* io/fs.walkDir: SkipDir from a directory skips it; from anything else it ends the enclosing directory *)
Fixpoint walk_node (bfn : list str) (root path name : str) (n : node) (w : walked) {struct n} : walked * bool :=
  match visit bfn root path name n w with
  | (w1, true) => (w1, negb (is_dir n))
  | (w1, false) =>
      match n with
      | Dir kids =>
          ((fix loop (ks : list (str * node)) (w : walked) {struct ks} : walked :=
              match ks with
              | [] => w
              | (nm, k) :: rest =>
                  match walk_node bfn root (pjoin path nm) nm k w with
                  | (w2, true) => w2
                  | (w2, false) => loop rest w2
                  end
              end) kids w1, false)
      | _ => (w1, false)
      end
  end.

Definition walk_dir (bfn : list str) (root : str) (tree : node) : walked :=
  let w := fst (walk_node bfn root root (base root) tree (Walked [] [] [])) in
  Walked (rev (w_files w)) (rev (w_syms w)) (rev (w_subs w)).

(* ------------------------------------------------------------------------------------------- filtering *)
Definition is_hidden (name : str) : bool :=
  let f := base name in prefixb (s ".") f || (prefixb (s "#") f && suffixb (s "#") f).

Definition is_in_directories (name : str) (dirs : list str) : bool :=
  existsb (fun d => prefixb (d ++ [SLASH]) name || str_eqb name d) dirs.

Definition is_base_path_of (path b : str) : bool :=
  prefixb b path && match skipn (length b) path with [] => true | c :: _ => N.eqb c SLASH end.

(* shouldExcludeMatch; None = an error / panic *)
Fixpoint should_exclude (root m : str) (excludes : list str) : option bool :=
  match excludes with
  | [] => Some false
  | excl :: rest =>
      match excl with
      | [] => None                                                  (* mustBeValidGlobString *)
      | _ =>
          if is_base_path_of m (join root excl) then Some true
          else
            let rel := has_slash m && negb (has_slash excl) in
            let m' := if rel then base m else m in
            let root' := if rel then [] else root in
            match pattern_to_matcher root' excl with
            | None => None
            | Some p => if tmatch p m' then Some true else should_exclude root m rest
            end
      end
  end.

Fixpoint filter_matches (root : str) (subs excludes : list str) (hidden : bool) (ms : list str) : option (list str) :=
  match ms with
  | [] => Some []
  | m :: rest =>
      if is_in_directories m subs then filter_matches root subs excludes hidden rest
      else if negb hidden && is_hidden m then filter_matches root subs excludes hidden rest
      else match should_exclude root m excludes with
           | None => None
           | Some true => filter_matches root subs excludes hidden rest
           | Some false => option_map (cons m) (filter_matches root subs excludes hidden rest)
           end
  end.

(* Globber.glob *)
Definition glob1 (root pattern : str) (excludes : list str) (hidden syms : bool) (w : walked) : option (list str) :=
  match pattern_to_matcher root pattern with
  | None => None
  | Some p =>
      let names := w_files w ++ (if syms then w_syms w else []) in
      filter_matches root (w_subs w) excludes hidden (filter (tmatch p) names)
  end.

(* Globber.Glob *)
Fixpoint glob_all (root : str) (includes excludes : list str) (hidden syms : bool) (w : walked) : option (list str) :=
  match includes with
  | [] => Some []
  | inc :: rest =>
      match inc with
      | [] => None
      | _ =>
          match glob1 root inc excludes hidden syms w with
          | None => None
          | Some ms =>
              option_map (app (map (trim_prefix (root ++ [SLASH])) ms)) (glob_all root rest excludes hidden syms w)
          end
      end
  end.

Definition glob (bfn : list str) (pkg : str) (tree : node) (includes excludes : list str) (hidden syms : bool)
  : option (list str) :=
  let root := match pkg with [] => s "." | _ => pkg end in
  glob_all root includes excludes hidden syms (walk_dir bfn root tree).

(* the glob() builtin of the BUILD language (src/parse/asp/builtins.go glob): every configured build file name
   (Config.Parse.BuildFileName - the same list the Globber is created with) is appended to the exclude list, whatever
   file the package was parsed from; then Globber.Glob.  (Gen/GlobRegex.v builtin_* regenerates the appended
   expression and the arguments of both calls; Proof/C21_builtin.v ties them.) *)
Definition glob_builtin (bfn : list str) (pkg : str) (tree : node) (includes excludes : list str) (hidden syms : bool)
  : option (list str) :=
  glob bfn pkg tree includes (excludes ++ bfn) hidden syms.

(* =========================================================================================== reference *)
(* The documented semantics, by path segments.  A pattern is a list of segments; `**` is a segment of its own. *)
Inductive atom := ALit (c : N) | AQ | AStar | AClass (neg : bool) (items : list (N * N)).
Inductive pseg := DStar | Seg (a : list atom).
Definition pat := list pseg.

Definition atom1 (a : atom) (c : N) : bool :=
  match a with
  | ALit d => N.eqb c d
  | AQ => true
  | AClass neg items => xorb neg (in_ranges c items)
  | AStar => false
  end.

(* one pattern segment against one path segment (which never contains '/') *)
Fixpoint seg_match (a : list atom) (x : str) : bool :=
  match a with
  | [] => match x with [] => true | _ => false end
  | AStar :: r => (fix star (x : str) : bool := seg_match r x || match x with _ :: x' => star x' | [] => false end) x
  | b :: r => match x with c :: x' => atom1 b c && seg_match r x' | [] => false end
  end.

(* `**` stands for any number of whole segments - at least one when it ends the pattern (it then selects what
   lies beneath), possibly none elsewhere *)
Fixpoint segs_match (p : pat) (f : list str) : bool :=
  match p with
  | [] => match f with [] => true | _ => false end
  | DStar :: rest =>
      match rest with
      | [] => match f with [] => false | _ => true end
      | _ => (fix ds (f : list str) : bool := segs_match rest f || match f with _ :: f' => ds f' | [] => false end) f
      end
  | Seg a :: rest => match f with x :: f' => seg_match a x && segs_match rest f' | [] => false end
  end.

(* rendering of a structured pattern as the string handed to glob() *)
Definition render_item (r : N * N) : str := if N.eqb (fst r) (snd r) then [fst r] else [fst r; DASH; snd r].
Definition render_atom (a : atom) : str :=
  match a with
  | ALit c => [c]
  | AQ => [QM]
  | AStar => [STAR]
  | AClass neg items => LBR :: (if neg then [CARET] else []) ++ flat_map render_item items ++ [RBR]
  end.
Definition render_seg (g : pseg) : str :=
  match g with DStar => [STAR; STAR] | Seg a => flat_map render_atom a end.
Definition render (p : pat) : str := intercalate (map render_seg p).

Definition name_hidden (n : str) : bool := prefixb (s ".") n || (prefixb (s "#") n && suffixb (s "#") n).

Definition has_build (bfn : list str) (kids : list (str * node)) : bool :=
  existsb (fun k => existsb (str_eqb (fst k)) bfn) kids.

(* the source files of the package rooted at `tree`, as segment lists relative to it, in walk order:
   not in a sub-package (a directory holding a BUILD file), not in the repository's plz-out, not hidden and
   not inside a hidden directory unless `hidden`; symbolic links only with `syms` *)
Fixpoint spec_files_in (bfn : list str) (top_of_repo hidden syms : bool) (rel : list str) (n : node) {struct n}
  : list (list str) :=
  match n with
  | File => [rel]
  | Sym => if syms then [rel] else []
  | Dir kids =>
      (fix each (ks : list (str * node)) : list (list str) :=
         match ks with
         | [] => []
         | (nm, k) :: rest =>
             (if negb hidden && name_hidden nm then []
              else if top_of_repo && str_eqb nm (s "plz-out") then []
              else match k with
                   | Dir kk => if has_build bfn kk then [] else spec_files_in bfn false hidden syms (rel ++ [nm]) k
                   | _ => spec_files_in bfn false hidden syms (rel ++ [nm]) k
                   end) ++ each rest
         end) kids
  end.

Fixpoint is_prefix_segs (p f : list str) : bool :=
  match p, f with
  | [], _ => true
  | _ :: _, [] => false
  | a :: p', b :: f' => str_eqb a b && is_prefix_segs p' f'
  end.

(* exclude patterns: a pattern without '/' is matched against the file name only, any other against the path
   from the package; an entry that literally names a directory (or the file) excludes everything beneath it *)
Definition excluded_by (e : pat) (f : list str) : bool :=
  is_prefix_segs (map render_seg e) f
  || match e with
     | [Seg a] => seg_match a (last f [])
     | _ => segs_match e f
     end.

Definition glob_spec (bfn : list str) (pkg : str) (tree : node) (includes excludes : list pat) (hidden syms : bool)
  : list (list str) :=
  filter (fun f => existsb (fun p => segs_match p f) includes && negb (existsb (fun e => excluded_by e f) excludes))
         (spec_files_in bfn (match pkg with [] => true | _ => false end) hidden syms [] tree).

(* =========================================================================================== the Globber *)
(* A Globber is persisted over several Glob calls (one per BUILD file scope: s.globber in src/parse/asp/builtins.go).
   Its only mutable state is the walkedDirs map: rootPath -> what walkDir collected there.  The file system is
   seen through globber.fs: `fsys root` is the directory tree at `root` (None: no such directory; WalkDir then
   hands the callback a nil DirEntry, which it dereferences - a panic). *)
Definition cache := list (str * walked).                 (* walkedDirs; most recently added first *)

Fixpoint cache_get (root : str) (g : cache) : option walked :=
  match g with
  | [] => None
  | (k, w) :: r => if str_eqb k root then Some w else cache_get root r
  end.

(* Globber.walkDir: look the root up; otherwise walk, and store the result only when the walk succeeded.
   The key is rootPath - the only parameter of walkDir (Gen/GlobRegex.v walkdir_* regenerates this protocol). *)
Definition walk_dir_st (bfn : list str) (fsys : str -> option node) (root : str) (g : cache) : option walked * cache :=
  match cache_get root g with
  | Some w => (Some w, g)
  | None =>
      match fsys root with
      | None => (None, g)
      | Some t => let w := walk_dir bfn root t in (Some w, (root, w) :: g)
      end
  end.

(* Globber.glob: patternToMatcher comes first - a pattern that does not compile leaves the cache untouched *)
Definition glob1_st (bfn : list str) (fsys : str -> option node) (root pattern : str) (excludes : list str)
  (hidden syms : bool) (g : cache) : option (list str) * cache :=
  match pattern_to_matcher root pattern with
  | None => (None, g)
  | Some p =>
      match walk_dir_st bfn fsys root g with
      | (None, g1) => (None, g1)
      | (Some w, g1) =>
          let names := w_files w ++ (if syms then w_syms w else []) in
          (filter_matches root (w_subs w) excludes hidden (filter (tmatch p) names), g1)
      end
  end.

(* Globber.Glob: a panic (None) abandons the call, the Globber keeps what it had cached until then *)
Fixpoint glob_all_st (bfn : list str) (fsys : str -> option node) (root : str) (includes excludes : list str)
  (hidden syms : bool) (g : cache) : option (list str) * cache :=
  match includes with
  | [] => (Some [], g)
  | inc :: rest =>
      match inc with
      | [] => (None, g)
      | _ =>
          match glob1_st bfn fsys root inc excludes hidden syms g with
          | (None, g1) => (None, g1)
          | (Some ms, g1) =>
              match glob_all_st bfn fsys root rest excludes hidden syms g1 with
              | (None, g2) => (None, g2)
              | (Some out, g2) => (Some (map (trim_prefix (root ++ [SLASH])) ms ++ out), g2)
              end
          end
      end
  end.

Record call := Call { c_pkg : str; c_inc : list str; c_exc : list str; c_hidden : bool; c_syms : bool }.

Definition root_of (pkg : str) : str := match pkg with [] => s "." | _ => pkg end.

Definition glob_st (bfn : list str) (fsys : str -> option node) (g : cache) (c : call) : option (list str) * cache :=
  glob_all_st bfn fsys (root_of (c_pkg c)) (c_inc c) (c_exc c) (c_hidden c) (c_syms c) g.

(* a history of calls on one Globber: the result of every call, and the final state *)
Fixpoint run_calls (bfn : list str) (fsys : str -> option node) (g : cache) (cs : list call)
  : list (option (list str)) * cache :=
  match cs with
  | [] => ([], g)
  | c :: rest =>
      let (r, g1) := glob_st bfn fsys g c in
      let (rs, g2) := run_calls bfn fsys g1 rest in
      (r :: rs, g2)
  end.

(* the file system of one repository tree: a root path names the directory reached through its components *)
Fixpoint tree_at (t : node) (segs : list str) : option node :=
  match segs with
  | [] => Some t
  | x :: r =>
      match t with
      | Dir kids =>
          (fix find (ks : list (str * node)) : option node :=
             match ks with
             | [] => None
             | (nm, k) :: ks' => if str_eqb nm x then tree_at k r else find ks'
             end) kids
      | _ => None
      end
  end.

Definition fs_of (tree : node) (root : str) : option node :=
  if str_eqb root (s ".") then Some tree else tree_at tree (split_on SLASH root).

Definition walked_eqb (a b : walked) : bool :=
  list_eqb str_eqb (w_files a) (w_files b) && list_eqb str_eqb (w_syms a) (w_syms b)
  && list_eqb str_eqb (w_subs a) (w_subs b).

(* the observed walkedDirs map (any order, distinct keys) holds the same entries as the model's cache *)
Definition cache_agrees (obs g : cache) : bool :=
  Nat.eqb (length obs) (length g)
  && forallb (fun kw => match cache_get (fst kw) g with Some w => walked_eqb w (snd kw) | None => false end) obs.

(* ------------------------------------------------------------------------------------------- cases *)
Inductive case :=
| CGlob (bfn : list str) (pkg : str) (tree : node) (includes excludes : list str) (hidden syms : bool)
        (out : list str)                                  (* what Globber.Glob returned, in its order *)
| CGlobS (bfn : list str) (pkg : str) (tree : node) (includes excludes : list pat) (hidden syms : bool)
        (out : list str)                                  (* the same, patterns given structurally *)
| CBuiltin (bfn : list str) (pkg : str) (tree : node) (includes excludes : list pat) (hidden syms : bool)
        (out : list str)                                  (* what the asp glob() builtin returned for a BUILD file of pkg *)
| CMatch (pattern path : str) (res : bool)                (* fs.Match(pattern, path) = patternToMatcher(".", p) *)
| CRegex (pattern : str) (out : str)                      (* toRegexString, through the verif hook *)
| CSeq (bfn : list str) (tree : node) (calls : list call) (outs : list (option (list str))) (final : cache).
        (* a history of Glob calls on ONE Globber over one repository tree: what each call returned (None: it
           panicked) and the walkedDirs map afterwards (through the verif hook) *)

Definition strs_eqb := list_eqb str_eqb.

Definition check (c : case) : bool :=
  match c with
  | CGlob bfn pkg tree inc exc hidden syms out =>
      option_eqb strs_eqb (glob bfn pkg tree inc exc hidden syms) (Some out)
  | CGlobS bfn pkg tree inc exc hidden syms out =>
      option_eqb strs_eqb (glob bfn pkg tree (map render inc) (map render exc) hidden syms) (Some out)
  | CBuiltin bfn pkg tree inc exc hidden syms out =>
      option_eqb strs_eqb (glob_builtin bfn pkg tree (map render inc) (map render exc) hidden syms) (Some out)
  | CMatch pattern path res =>
      match pattern_to_matcher (s ".") pattern with
      | Some p => Bool.eqb (tmatch p path) res
      | None => false
      end
  | CRegex pattern out => str_eqb (to_regex_string pattern) out
  | CSeq bfn tree calls outs final =>
      let (rs, g) := run_calls bfn (fs_of tree) [] calls in
      list_eqb (option_eqb strs_eqb) rs outs && cache_agrees final g
  end.
