(* C19 - the BUILD parser is total and fails only with positioned errors.
   Executable model of src/parse/asp/lexer.go (complete) and of the control flow of
   src/parse/asp/grammar_parse.go (every production, as a recogniser: result kind, error
   position, number of top-level statements; the AST is not built except for what decides
   control flow or an index: string / f-string values for concatStrings and parseFString).
   Every slice/array index of the Go code is explicit (nth_error / byte_at); an index the Go
   code would get wrong is the result Internal.  The fuel `f` of next_token is exactly the
   recursion depth of lex.nextToken; in the parser it bounds recursion depth plus loop
   iterations; running out of it is the result Deep (Go: "fatal error: stack overflow", which
   recover() cannot catch).  No proofs here.

   NOT modelled: line/col counters (never observable in a token or an error), endPos, the AST,
   error message texts, log.Debugf, memory exhaustion, the time the quadratic operator hoisting
   takes. *)
From Coq Require Import String.
From PlzV Require Import Base.Harness.
From PlzV Require Gen.C19Tables.
Local Open Scope N_scope.

(* ------------------------------------------------------------------------------------------ *)
(* Tokens (lexer.go:10-28).  Type > 0: the literal byte; < 0: one of these.                     *)
Definition TEOF : Z := (-1)%Z.
Definition TIdent : Z := (-2)%Z.
Definition TInt : Z := (-3)%Z.
Definition TString : Z := (-4)%Z.
Definition TLexOperator : Z := (-5)%Z.
Definition TEOL : Z := (-6)%Z.
Definition TUnindent : Z := (-7)%Z.

Record tok := mkTok { ttype : Z; tval : str; tpos : nat }.

(* lex: the fields that influence tokens (bytes is a separate, constant argument). The indents
   slice is kept as a stack, head = last element. *)
Record lstate := mkL {
  pos : nat; indent : nat; braces : nat; unind : nat; indents : list nat; lastEOL : bool }.

Inductive lres :=
| LTok (t : tok) (st : lstate)
| LErr (p : nat)          (* l.fail(pos, ...): a positioned error *)
| LInternal               (* an index out of range in the Go code *)
| LDeep.                  (* recursion deeper than the fuel *)

Definition byte_at (bytes : str) (i : nat) : option N := nth_error bytes i.

(* `for cond(l.bytes[l.pos]) { l.pos++ }`: the number of leading bytes satisfying p;
   None = the loop ran off the end of the buffer (index out of range). *)
Fixpoint scan (p : N -> bool) (sfx : str) : option nat :=
  match sfx with
  | [] => None
  | c :: r => if p c then option_map S (scan p r) else Some 0%nat
  end.

Definition is_space (c : N) := c =? 32.
Definition is_digit (c : N) := (48 <=? c) && (c <=? 57).
Definition is_quote (c : N) := (c =? 34) || (c =? 39).
Definition not_eol_nul (c : N) := negb (c =? 10) && negb (c =? 0).
Definition is_lower (c : N) := (97 <=? c) && (c <=? 122).
Definition is_upper (c : N) := (65 <=? c) && (c <=? 90).
Definition ident_start (c : N) := is_lower c || is_upper c || (c =? 95) || (128 <=? c).
(* the case list of consumeIdent; tied to the source by Gen.C19Tables.ident_chars *)
Definition ident_char (c : N) := existsb (N.eqb c) Gen.C19Tables.ident_chars.

(* unicode/utf8.DecodeRune on a non-empty slice: (rune, width). *)
Definition in_range (lo hi b : N) := (lo <=? b) && (b <=? hi).
Definition rune_error : N := 65533.
Definition decode_rune (sfx : str) : N * nat :=
  match sfx with
  | [] => (rune_error, 0%nat)
  | b0 :: r =>
      if b0 <? 128 then (b0, 1%nat)
      else if b0 <? 194 then (rune_error, 1%nat)
      else if b0 <? 224 then
        match r with
        | b1 :: _ => if in_range 128 191 b1
                     then (N.lor (N.shiftl (N.land b0 31) 6) (N.land b1 63), 2%nat)
                     else (rune_error, 1%nat)
        | _ => (rune_error, 1%nat)
        end
      else if b0 <? 240 then
        let lo := if b0 =? 224 then 160 else 128 in
        let hi := if b0 =? 237 then 159 else 191 in
        match r with
        | b1 :: b2 :: _ =>
            if in_range lo hi b1 && in_range 128 191 b2
            then (N.lor (N.shiftl (N.land b0 15) 12)
                        (N.lor (N.shiftl (N.land b1 63) 6) (N.land b2 63)), 3%nat)
            else (rune_error, 1%nat)
        | _ => (rune_error, 1%nat)
        end
      else if b0 <? 245 then
        let lo := if b0 =? 240 then 144 else 128 in
        let hi := if b0 =? 244 then 143 else 191 in
        match r with
        | b1 :: b2 :: b3 :: _ =>
            if in_range lo hi b1 && in_range 128 191 b2 && in_range 128 191 b3
            then (N.lor (N.shiftl (N.land b0 7) 18)
                        (N.lor (N.shiftl (N.land b1 63) 12)
                               (N.lor (N.shiftl (N.land b2 63) 6) (N.land b3 63))), 4%nat)
            else (rune_error, 1%nat)
        | _ => (rune_error, 1%nat)
        end
      else (rune_error, 1%nat)
  end.

(* consumeString's loop (lexer.go:313-367) over the bytes from l.pos on. *)
Inductive sres :=
| SDone (value_rev : str) (consumed : nat)
| SErr                                   (* "Unterminated string literal" *)
| SInternal.

Fixpoint str_go (quote : N) (multi raw escaped : bool) (sfx : str) (acc : str) (n : nat) : sres :=
  match sfx with
  | [] => SInternal
  | c :: r =>
      if escaped then
        let acc' :=
          if c =? 110 then 10 :: acc
          else if c =? 116 then 9 :: acc
          else if (c =? 10) && multi then acc
          else if (c =? 92) || (c =? 39) || (c =? 34) then c :: acc
          else c :: 92 :: acc in
        str_go quote multi raw false r acc' (S n)
      else if c =? quote then
        if negb multi then SDone acc (S n)
        else match r with
             | [] => SInternal                               (* l.bytes[l.pos] *)
             | c1 :: r1 =>
                 if c1 =? quote then
                   match r1 with
                   | [] => SInternal                         (* l.bytes[l.pos+1] *)
                   | c2 :: _ => if c2 =? quote then SDone acc (S (S (S n)))
                                else str_go quote multi raw false r (c :: acc) (S n)
                   end
                 else str_go quote multi raw false r (c :: acc) (S n)
             end
      else if c =? 10 then
        if multi then str_go quote multi raw false r (c :: acc) (S n) else SErr
      else if c =? 0 then SErr
      else if (c =? 92) && negb raw then str_go quote multi raw true r acc (S n)
      else str_go quote multi raw false r (c :: acc) (S n)
  end.

(* consumeIdent's loop (lexer.go:373-401). *)
Inductive ires :=
| IDone (value_rev : str) (consumed : nat)
| IErr                                   (* "Illegal Unicode identifier" *)
| IInternal.

Section Lexer.
  (* unicode.IsLetter(c) || unicode.IsDigit(c) on a decoded multi-byte rune: external (the Go
     standard library's Unicode tables).  The harness supplies it per case as the list of the
     letter/digit runes occurring in the input; the theorems hold for every such function. *)
  Variable isld : N -> bool.
  Variable bytes : str.

  Fixpoint ident_go (g : nat) (sfx : str) (acc : str) (n : nat) : ires :=
    match g with
    | O => IInternal
    | S g' =>
        match sfx with
        | [] => IInternal
        | c :: r =>
            if 128 <=? c then
              let '(rn, w) := decode_rune sfx in
              if isld rn then ident_go g' (skipn w sfx) (rev (firstn w sfx) ++ acc) (n + w)
              else IErr
            else if c =? 32 then IDone acc (S n)
            else if ident_char c then ident_go g' r (c :: acc) (S n)
            else IDone acc n
        end
    end.

  (* the unindent loop of the newline case: pops while top > indent; None = indents[-1] on an
     empty slice. *)
  Fixpoint pop_indents (ind : nat) (stack : list nat) (un : nat) : option (list nat * nat) :=
    match stack with
    | [] => None
    | top :: rest => if (ind <? top)%nat then pop_indents ind rest (S un) else Some (stack, un)
    end.

  Definition set_pos (st : lstate) (p : nat) : lstate :=
    mkL p (indent st) (braces st) (unind st) (indents st) (lastEOL st).

  Definition tok1 (c : N) (p : nat) : tok := mkTok (Z.of_N c) [c] p.

  Definition consume_integer (initial : N) (p0 p : nat) (st : lstate) : lres :=
    match scan is_digit (skipn p bytes) with
    | None => LInternal
    | Some k => LTok (mkTok TInt (initial :: firstn k (skipn p bytes)) p0) (set_pos st (p + k))
    end.

  Definition consume_string (quote : N) (p0 p : nat) (raw fstr : bool) (st : lstate) : lres :=
    (* consumePossiblyTripleQuotedString *)
    match byte_at bytes p with
    | None => LInternal
    | Some c1 =>
        let triple :=
          if c1 =? quote then
            match byte_at bytes (S p) with None => None | Some c2 => Some (c2 =? quote) end
          else Some false in
        match triple with
        | None => LInternal
        | Some multi =>
            let p' := if multi then S (S p) else p in
            match str_go quote multi raw false (skipn p' bytes) [] 0 with
            | SInternal => LInternal
            | SErr => LErr p0
            | SDone acc n =>
                let v := 34 :: rev (34 :: acc) in
                LTok (mkTok TString (if fstr then 102 :: v else v) p0) (set_pos st (p' + n))
            end
        end
    end.

  Definition consume_ident (p0 : nat) (st : lstate) : lres :=
    let sfx := skipn p0 bytes in
    match ident_go (S (length sfx)) sfx [] 0 with
    | IInternal => LInternal
    | IErr => LErr p0
    | IDone acc n => LTok (mkTok TIdent (rev acc) p0) (set_pos st (p0 + n))
    end.

  (* lex.nextToken (lexer.go:169-284) is split in two: token_step is one activation of the function
     up to either its return or its tail call `return l.nextToken()`; next_token iterates it, the
     fuel f being the remaining recursion depth. *)
  Inductive action :=
  | ARet (r : lres)            (* return a token / fail *)
  | ARec (st : lstate).        (* return l.nextToken() with the lexer in this state *)

  Definition token_step (st : lstate) : action :=
      match scan is_space (skipn (pos st) bytes) with           (* stripSpaces *)
      | None => ARet LInternal
      | Some k0 =>
        let p0 := (pos st + k0)%nat in
        if (0 <? unind st)%nat then
          ARet (LTok (mkTok TUnindent [] p0)
               (mkL p0 (indent st) (braces st) (pred (unind st)) (indents st) (lastEOL st)))
        else
        match byte_at bytes p0 with
        | None => ARet LInternal
        | Some next =>
          (* rawString / fString: bytes[pos+1] is read only when next is 'r' / 'f' *)
          let pre (c : N) : option bool :=
            if next =? c then
              match byte_at bytes (S p0) with None => None | Some b => Some (is_quote b) end
            else Some false in
          match pre 114, pre 102 with
          | None, _ | _, None => ARet LInternal
          | Some raw, Some fstr =>
            if negb (raw || fstr) && ident_start next then ARet (consume_ident p0 st)
            else
            let p1 := if raw || fstr then S p0 else p0 in
            match byte_at bytes p1 with
            | None => ARet LInternal
            | Some c =>
              let p2 := S p1 in
              let single := ARet (LTok (tok1 c p0) (set_pos st p2)) in
              if c =? 0 then ARet (LTok (mkTok TEOF [] p0) (set_pos st p2))
              else if c =? 13 then ARec (set_pos st p2)
              else if c =? 10 then
                match scan is_space (skipn p2 bytes) with
                | None => ARet LInternal
                | Some k =>
                  let p3 := (p2 + k)%nat in
                  match byte_at bytes p3 with
                  | None => ARet LInternal
                  | Some b =>
                    if b =? 10 then ARec (set_pos st p3)
                    else
                    let ind := if (braces st =? 0)%nat then k else indent st in
                    let cont (tp : nat) (stk : list nat) (un : nat) : action :=
                      let st' := mkL p3 ind (braces st) un stk (lastEOL st) in
                      if (braces st =? 0)%nat && negb (lastEOL st)
                      then ARet (LTok (mkTok TEOL [] tp) st')
                      else ARec st' in
                    if (ind <? indent st)%nat && (braces st =? 0)%nat then
                      match pop_indents ind (indents st) (unind st) with
                      | None => ARet LInternal
                      | Some (stk, un) =>
                          match stk with
                          | [] => ARet LInternal
                          | top :: _ => if (ind =? top)%nat then cont (S p0) stk un
                                        else ARet (LErr (S p0))       (* "Unexpected indent" *)
                          end
                      end
                    else if negb (indent st =? ind)%nat then cont p0 (ind :: indents st) (unind st)
                    else cont p0 (indents st) (unind st)
                  end
                end
              else if c =? 48 then
                match byte_at bytes p2 with
                | None => ARet LInternal
                | Some b => if b =? 111 then ARet (consume_integer c p0 (S p2) st)
                            else ARet (consume_integer c p0 p2 st)
                end
              else if in_range 49 57 c then ARet (consume_integer c p0 p2 st)
              else if is_quote c then ARet (consume_string c p0 p2 raw fstr st)
              else if (c =? 40) || (c =? 91) || (c =? 123) then
                ARet (LTok (tok1 c p0) (mkL p2 (indent st) (S (braces st)) (unind st) (indents st) (lastEOL st)))
              else if (c =? 41) || (c =? 93) || (c =? 125) then
                ARet (LTok (tok1 c p0) (mkL p2 (indent st) (pred (braces st)) (unind st) (indents st) (lastEOL st)))
              else if (c =? 61) || (c =? 33) || (c =? 43) || (c =? 60) || (c =? 62) then
                match byte_at bytes p2 with
                | None => ARet LInternal
                | Some b => if b =? 61 then ARet (LTok (mkTok TLexOperator [c; b] p0) (set_pos st (S p2)))
                            else single
                end
              else if (c =? 44) || (c =? 46) || (c =? 37) || (c =? 42) || (c =? 124) || (c =? 38) || (c =? 58)
              then single
              else if c =? 47 then
                match byte_at bytes p2 with
                | None => ARet LInternal
                | Some b => if b =? 47 then ARet (LTok (mkTok TLexOperator [c; b] p0) (set_pos st (S p2)))
                            else single
                end
              else if c =? 35 then
                match scan not_eol_nul (skipn p2 bytes) with
                | None => ARet LInternal
                | Some k => ARec (set_pos st (p2 + k))
                end
              else if c =? 45 then
                match byte_at bytes p2 with
                | None => ARet LInternal
                | Some b => if is_digit b then ARet (consume_integer c p0 p2 st) else single
                end
              else ARet (LErr p0)          (* tab: "Tabs are not permitted"; default: "Unknown symbol" *)
            end
          end
        end
      end.

  Fixpoint next_token (f : nat) (st : lstate) : lres :=
    match f with
    | O => LDeep
    | S f' =>
        match token_step st with
        | ARet r => r
        | ARec st' => next_token f' st'
        end
    end.

  Definition is_eol_unindent (t : Z) : bool := (t =? TEOL)%Z || (t =? TUnindent)%Z.

  (* lex.Next, minus returning the previous token: computes l.next and l.lastEOL. *)
  Definition lnext (f : nat) (st : lstate) : lres :=
    match next_token f st with
    | LTok t st' =>
        LTok t (mkL (pos st') (indent st') (braces st') (unind st') (indents st') (is_eol_unindent (ttype t)))
    | r => r
    end.
End Lexer.

(* newLexer: append '\n' when missing, then the two NUL sentinels. *)
Definition fix_newline (b : str) : str :=
  match b with
  | [] => []
  | _ => if last b 0 =? 10 then b else b ++ [10]
  end.
Definition buffer (b : str) : str := fix_newline b ++ [0; 0].

Definition init_l : lstate := mkL 0 0 0 0 [0%nat] false.

(* `l.Next(); for l.Peek().Type == TEOL { l.Next() }` - g bounds the iterations of the for loop *)
Fixpoint skip_eols (isld : N -> bool) (bytes : str) (f g : nat) (r : lres) : lres :=
  match g with
  | O => LDeep
  | S g' =>
      match r with
      | LTok t st => if (ttype t =? TEOL)%Z then skip_eols isld bytes f g' (lnext isld bytes f st) else r
      | _ => r
      end
  end.

Definition lex_gas (bytes : str) : nat := (3 * length bytes + 4)%nat.

Definition new_lexer (isld : N -> bool) (bytes : str) (f : nat) : lres :=
  skip_eols isld bytes f (lex_gas bytes) (lnext isld bytes f init_l).

(* ---- the lexer alone, as the hook VerifC19Lex drives it --------------------------------------- *)
Inductive lex_out :=
| LexOk (toks : list tok)
| LexErr (toks : list tok) (p : nat)
| LexInternal
| LexDeep.

Fixpoint lex_loop (isld : N -> bool) (bytes : str) (f g : nat) (r : lres) (acc : list tok) : lex_out :=
  match g with
  | O => LexDeep
  | S g' =>
      match r with
      | LTok t st =>
          if (ttype t =? TEOF)%Z && (pred (length bytes) <=? pos st)%nat then LexOk (rev (t :: acc))
          else lex_loop isld bytes f g' (lnext isld bytes f st) (t :: acc)
      | LErr p => LexErr (rev acc) p
      | LInternal => LexInternal
      | LDeep => LexDeep
      end
  end.

Definition lex_fuel (b : str) : nat := (length b + 5)%nat.

Definition lex_all (isld : N -> bool) (f : nat) (b : str) : lex_out :=
  let bytes := buffer b in
  lex_loop isld bytes f (lex_gas bytes) (new_lexer isld bytes f) [].

(* ------------------------------------------------------------------------------------------ *)
(* The parser (grammar_parse.go).                                                              *)

Record pstate := mkP { lx : lstate; peek : tok; inFor : bool }.

(* what a production hands back, when anything is needed at all *)
Inductive vinfo :=
| VNone
| VNum (n : nat)                   (* number of statements parsed *)
| VTok (t : tok)
| VBool (b : bool)
| VStr (v : str)                   (* ValueExpression.String *)
| VFStr (nvars : nat).             (* ValueExpression.FString with len(Vars) *)

Inductive pres :=
| POk (v : vinfo) (st : pstate)
| PSyn (p : nat)                   (* a positioned error (lexer or parser fail()) *)
| PInternal
| PDeep.

Definition bind (m : pres) (k : vinfo -> pstate -> pres) : pres :=
  match m with
  | POk v st => k v st
  | PSyn p => PSyn p
  | PInternal => PInternal
  | PDeep => PDeep
  end.
Notation "m >>= k" := (bind m k) (at level 58, left associativity).
Notation "m >> k" := (bind m (fun _ => k)) (at level 58, left associativity).

Definition ret (st : pstate) : pres := POk VNone st.
Definition pfail (t : tok) : pres := PSyn (tpos t).

Definition tyb (t : tok) (ty : Z) : bool := (ttype t =? ty)%Z.
Definition valb (t : tok) (v : str) : bool := str_eqb (tval t) v.
Definition ch (c : string) : Z :=
  match s c with x :: _ => Z.of_N x | [] => 0%Z end.
Arguments ch c%string.

(* s[i] and s[i:j] with Go's bounds checks *)
Definition slice_checked (v : str) (i j : nat) : option str :=
  if (i <=? j)%nat && (j <=? length v)%nat then Some (firstn (j - i) (skipn i v)) else None.

(* findBrace (grammar_parse.go:748), bytewise (continuation bytes of a multi-byte rune are never
   '{' or '$', so iterating bytes instead of runes visits the same braces with the same `last`) *)
Fixpoint find_brace (sfx : str) (last : N) (i : nat) : option nat :=
  match sfx with
  | [] => None
  | c :: r =>
      if (c =? 123) && negb (last =? 123) && negb (last =? 36) then
        match r with
        | c1 :: _ => if c1 =? 123 then find_brace r c (S i) else Some i
        | [] => Some i
        end
      else find_brace r c (S i)
  end.

Fixpoint index_byte (sfx : str) (b : N) (i : nat) : option nat :=
  match sfx with
  | [] => None
  | c :: r => if c =? b then Some i else index_byte r b (S i)
  end.

Inductive fres := FOk (nvars : nat) | FErr (p : nat) | FInternal.

(* the loop of parseFString over the text between the quotes; tp = tok.Pos as it is advanced *)
Fixpoint fstring_go (g : nat) (v : str) (tp : nat) (nvars : nat) : fres :=
  match g with
  | O => FInternal
  | S g' =>
      match find_brace v 32 0 with
      | None => FOk nvars
      | Some idx =>
          match slice_checked v 0 idx, slice_checked v (S idx) (length v) with
          | Some _, Some v1 =>
              let tp1 := (tp + S idx)%nat in
              match index_byte v1 125 0 with
              | None => FErr tp1                             (* "Unterminated brace in fstring" *)
              | Some j =>
                  match slice_checked v1 0 j, slice_checked v1 (S j) (length v1) with
                  | Some _, Some v2 => fstring_go g' v2 (tp1 + S j) (S nvars)
                  | _, _ => FInternal
                  end
              end
          | _, _ => FInternal
          end
      end
  end.

(* concatStrings (grammar_parse.go:429), as it is after the fix cef5fbc. The index expressions
   are lhs.String[1:len-1], rhs.String[1:len-1] and rhs.FString.Vars[0]. *)
Definition inner (v : str) : option str := slice_checked v 1 (length v - 1).
Definition concat_strings (lhs rhs : vinfo) : option vinfo :=
  match lhs, rhs with
  | VFStr n, VFStr m => if (m =? 0)%nat then Some (VFStr n) else Some (VFStr (n + m))
  | VFStr n, VStr r => match inner r with Some _ => Some (VFStr n) | None => None end
  | VStr l, VFStr m => match inner l with Some _ => Some (VFStr m) | None => None end
  | VStr l, VStr r =>
      match inner l, inner r with
      | Some a, Some b => Some (VStr (34 :: a ++ b ++ [34]))
      | _, _ => None
      end
  | _, _ => None
  end.

(* strconv.Atoi succeeds on a value shorter than 19 bytes iff it is an optional sign followed by
   at least one digit, all digits. *)
Definition atoi_ok (v : str) : bool :=
  let digits := match v with c :: r => if (c =? 45) || (c =? 43) then r else v | [] => [] end in
  match digits with [] => false | _ => forallb is_digit digits end.

Definition keywords : list str := map s Gen.C19Tables.keywords.
Definition operators : list str := map s Gen.C19Tables.operators.
Definition type_names : list str :=
  map s ["bool"; "str"; "int"; "list"; "dict"; "function"; "config"; "none"]%string.
Definition arg_type_names : list str :=
  map s ["bool"; "str"; "int"; "list"; "dict"; "function"; "config"]%string.
Definition mem (v : str) (l : list str) : bool := existsb (str_eqb v) l.

Inductive prod :=
| PFile (n : nat)            (* the loop of parseFileInput, n statements so far *)
| PStatement
| PStatements                (* parseStatements: the loop and the closing TUnindent *)
| PReturn
| PFuncDef
| PFuncArgs                  (* the argument loop of parseFuncDef *)
| PArgument
| PArgTypes                  (* the type annotation loop of parseArgument *)
| PArgAliases
| PIf
| PElifs
| PFor
| PIdentList
| PIdentListMore
| PExpression                (* parseExpression / parseExpressionInPlace *)
| PUncond                    (* parseUnconditionalExpression(InPlace) *)
| PValue
| PValueTail                 (* the slices loop and .property / (call) of parseValueExpression *)
| PIdentStatement
| PIdentExpr
| PIdentExprMore
| PCall (names : list str)   (* parseCall's loop with the names seen so far *)
| PList (closing : Z) (n : nat) (first : bool)
| PDict (n : nat) (first : bool)
| PSlice
| PComprehension
| PLambda
| PLambdaArgs
| PFString.

Section Parser.
  Variable isld : N -> bool.
  Variable bytes : str.
  Variable f : nat.                          (* remaining depth, handed to the lexer *)
  Variable rec : prod -> pstate -> pres.     (* the same parser with one unit less fuel *)

  (* p.l.Next(): returns the previous lookahead *)
  Definition advance (st : pstate) : pres :=
    match lnext isld bytes f (lx st) with
    | LTok t l' => POk (VTok (peek st)) (mkP l' t (inFor st))
    | LErr p => PSyn p
    | LInternal => PInternal
    | LDeep => PDeep
    end.

  Definition expect (ty : Z) (st : pstate) : pres :=            (* p.next *)
    let t := peek st in advance st >> fun st' => if tyb t ty then POk (VTok t) st' else pfail t.
  Definition expectv (v : str) (st : pstate) : pres :=          (* p.nextv *)
    let t := peek st in advance st >> fun st' => if valb t v then POk (VTok t) st' else pfail t.
  Definition oneof (tys : list Z) (st : pstate) : pres :=
    let t := peek st in
    advance st >> fun st' => if existsb (tyb t) tys then POk (VTok t) st' else pfail t.
  Definition oneofval (vs : list str) (st : pstate) : pres :=
    let t := peek st in
    advance st >> fun st' => if mem (tval t) vs then POk (VTok t) st' else pfail t.
  Definition optional (ty : Z) (st : pstate) : pres :=
    if tyb (peek st) ty then advance st >> fun st' => POk (VBool true) st' else POk (VBool false) st.
  Definition optionalv (v : str) (st : pstate) : pres :=
    if valb (peek st) v then advance st >> fun st' => POk (VBool true) st' else POk (VBool false) st.

  Definition is_true (v : vinfo) : bool := match v with VBool true => true | _ => false end.
  Definition set_for (b : bool) (st : pstate) : pstate := mkP (lx st) (peek st) b.

  (* lex.AssignFollows: stripSpaces, then bytes[pos] == '=' && bytes[pos+1] != '=' *)
  Definition assign_follows (st : pstate) : pres :=
    match scan is_space (skipn (pos (lx st)) bytes) with
    | None => PInternal
    | Some k =>
        let p := (pos (lx st) + k)%nat in
        let st' := mkP (set_pos (lx st) p) (peek st) (inFor st) in
        match byte_at bytes p with
        | None => PInternal
        | Some c =>
            if c =? 61 then
              match byte_at bytes (S p) with
              | None => PInternal
              | Some c1 => POk (VBool (negb (c1 =? 61))) st'
              end
            else POk (VBool false) st'
        end
    end.

  Definition after_sep (sep : Z) (again : pstate -> pres) (done : pstate -> pres) (st : pstate) : pres :=
    optional sep st >>= fun b st' => if is_true b then again st' else done st'.

  Definition step (p : prod) (st : pstate) : pres :=
    let t := peek st in
    match p with
    | PFile n =>
        if tyb t TEOF then POk (VNum n) st
        else rec PStatement st >> rec (PFile (S n))

    | PStatement =>
        let eol st := expect TEOL st in
        if valb t (s "pass") then advance st >> eol
        else if valb t (s "continue") || valb t (s "break") then
          if inFor st then advance st >> eol else pfail t
        else if valb t (s "def") then
          let before := inFor st in
          rec PFuncDef (set_for false st) >> fun st' => ret (set_for before st')
        else if valb t (s "for") then
          let before := inFor st in
          rec PFor (set_for true st) >> fun st' => ret (set_for before st')
        else if valb t (s "if") then rec PIf st
        else if valb t (s "return") then advance st >> rec PReturn
        else if valb t (s "raise") then advance st >> rec PExpression >> eol
        else if valb t (s "assert") then
          advance st >> rec PExpression >> optional (ch ",") >>= fun b st' =>
          if is_true b then rec PExpression st' >> eol else eol st'
        else if tyb t TIdent then rec PIdentStatement st >> eol
        else rec PExpression st >> eol

    | PStatements =>
        if negb (tyb t TUnindent) then rec PStatement st >> rec PStatements
        else expect TUnindent st

    | PReturn =>
        if negb (tyb t TEOL) then
          rec PExpression st >> after_sep (ch ",") (rec PReturn) (expect TEOL)
        else expect TEOL st

    | PFuncDef =>
        expectv (s "def") st >> expect TIdent >> expect (ch "(") >> rec PFuncArgs >> expect (ch ")") >>
        (fun st1 =>
           if valb (peek st1) (s "-")
           then expect (ch "-") st1 >> expect (ch ">") >> oneofval type_names
           else ret st1) >>
        expect (ch ":") >> expect TEOL >>
        (fun st2 => if tyb (peek st2) TString then advance st2 >> expect TEOL else ret st2) >>
        rec PStatements

    | PFuncArgs =>
        if negb (tyb t (ch ")")) then
          rec PArgument st >> after_sep (ch ",") (rec PFuncArgs) ret
        else ret st

    | PArgument =>
        let at_end st := tyb (peek st) (ch ",") || tyb (peek st) (ch ")") in
        let default st := rec PExpression st in
        let aliases st :=
          rec PArgAliases st >> fun st' => if at_end st' then ret st' else expect (ch "=") st' >> default in
        expect TIdent st >> fun st1 =>
        if at_end st1 then ret st1 else
        oneof [ch ":"; ch "&"; ch "="] st1 >>= fun v st2 =>
        match v with
        | VTok tk =>
            if tyb tk (ch ":") then
              rec PArgTypes st2 >> fun st3 =>
              if at_end st3 then ret st3 else
              oneof [ch "&"; ch "="] st3 >>= fun v' st4 =>
              match v' with
              | VTok tk' => if tyb tk' (ch "&") then aliases st4 else default st4
              | _ => PInternal
              end
            else if tyb tk (ch "&") then aliases st2
            else default st2
        | _ => PInternal
        end

    | PArgTypes => oneofval arg_type_names st >> after_sep (ch "|") (rec PArgTypes) ret
    | PArgAliases => expect TIdent st >> after_sep (ch "&") (rec PArgAliases) ret

    | PIf =>
        expectv (s "if") st >> rec PExpression >> expect (ch ":") >> expect TEOL >> rec PStatements >>
        rec PElifs >> optionalv (s "else") >>= fun b st' =>
        if is_true b then expect (ch ":") st' >> expect TEOL >> rec PStatements else ret st'

    | PElifs =>
        optionalv (s "elif") st >>= fun b st' =>
        if is_true b
        then rec PExpression st' >> expect (ch ":") >> expect TEOL >> rec PStatements >> rec PElifs
        else ret st'

    | PFor =>
        expectv (s "for") st >> rec PIdentList >> expectv (s "in") >> rec PExpression >>
        expect (ch ":") >> expect TEOL >> rec PStatements

    | PIdentList => expect TIdent st >> rec PIdentListMore
    | PIdentListMore =>
        if tyb t (ch ",") then advance st >> expect TIdent >> rec PIdentListMore else ret st

    | PExpression =>
        rec PUncond st >> optionalv (s "if") >>= fun b st' =>
        if is_true b then rec PExpression st' >> expectv (s "else") >> rec PExpression else ret st'

    | PUncond =>
        (if tyb t (ch "-") then advance st
         else if valb t (s "not") then advance st else ret st) >>
        rec PValue >> fun st1 =>
        (* the "not in" hack: after `not` the operator looked up is "not in" *)
        (if valb (peek st1) (s "not") then
           advance st1 >> fun st2 =>
           if valb (peek st2) (s "in") then POk (VStr (s "not in")) st2 else pfail (peek st2)
         else POk (VStr (tval (peek st1))) st1) >>= fun opv st3 =>
        match opv with
        | VStr op =>
            if mem op operators then
              advance st3 >> fun st4 =>
              (if str_eqb op (s "is") && valb (peek st4) (s "not") then advance st4 else ret st4) >>
              rec PUncond
            else ret st3
        | _ => PInternal
        end

    | PValue =>
        let tail st := rec PValueTail st in
        if tyb t TString then
          match tval t with
          | [] => PInternal                                      (* tok.Value[0] *)
          | c0 :: _ =>
              (if c0 =? 102 then rec PFString st
               else advance st >> fun st' => POk (VStr (tval t)) st') >>= fun lhs st1 =>
              if tyb (peek st1) TString then
                rec PValue st1 >>= fun rhs st2 =>
                match concat_strings lhs rhs with
                | Some v => POk v st2
                | None => PInternal
                end
              else tail st1 >> fun st2 => POk lhs st2
          end
        else if tyb t TInt then
          if (length (tval t) <? 19)%nat && atoi_ok (tval t) then advance st >> tail else pfail t
        else if valb t (s "False") || valb t (s "True") || valb t (s "None") then advance st >> tail
        else if tyb t (ch "[") then rec (PList (ch "]") 0 true) st >> tail
        else if tyb t (ch "(") then rec (PList (ch ")") 0 true) st >> tail
        else if tyb t (ch "{") then rec (PDict 0 true) st >> tail
        else if valb t (s "lambda") then rec PLambda st >> tail
        else if tyb t TIdent then rec PIdentExpr st >> tail
        else pfail t

    | PValueTail =>
        if tyb t (ch "[") then rec PSlice st >> rec PValueTail
        else
          optional (ch ".") st >>= fun b st1 =>
          if is_true b then rec PIdentExpr st1
          else optional (ch "(") st1 >>= fun b' st2 =>
               if is_true b' then rec (PCall []) st2 else ret st2

    | PIdentStatement =>
        expect TIdent st >> fun st1 =>
        if mem (tval t) keywords then pfail t else
        if tyb (peek st1) TEOL then ret st1 else
        let tk := peek st1 in
        advance st1 >> fun st2 =>
        if tyb tk (ch ",") then rec PIdentList st2 >> expect (ch "=") >> rec PExpression
        else if tyb tk (ch "[") then
          rec PExpression st2 >> expect (ch "]") >> oneofval [s "="; s "+="] >> rec PExpression
        else if tyb tk (ch ".") then rec PIdentExpr st2
        else if tyb tk (ch "(") then rec (PCall []) st2
        else if tyb tk (ch "=") then rec PExpression st2
        else if valb tk (s "+=") then rec PExpression st2
        else pfail tk

    | PIdentExpr => expect TIdent st >> rec PIdentExprMore
    | PIdentExprMore =>
        if tyb t (ch ".") then advance st >> rec PIdentExpr >> rec PIdentExprMore
        else if tyb t (ch "(") then advance st >> rec (PCall []) >> rec PIdentExprMore
        else ret st

    | PCall names =>
        if tyb t (ch ")") then expect (ch ")") st else
        let value names' st := rec PExpression st >> after_sep (ch ",") (rec (PCall names')) (expect (ch ")")) in
        if tyb t TIdent then
          assign_follows st >>= fun b st1 =>
          if is_true b then
            expect TIdent st1 >> expect (ch "=") >> fun st2 =>
            if mem (tval t) names then pfail t else value (tval t :: names) st2
          else value names st1
        else value names st

    | PList closing n first =>
        let finish n st :=
          (if valb (peek st) (s "for") then
             if (n =? 1)%nat then rec PComprehension st else pfail (peek st)
           else ret st) >> expect closing in
        if first then
          expect (if (closing =? ch "]")%Z then ch "[" else ch "(") st >> rec (PList closing 0 false)
        else if negb (tyb t closing) then
          rec PExpression st >> after_sep (ch ",") (rec (PList closing (S n) false)) (finish (S n))
        else finish n st

    | PDict n first =>
        let finish n st :=
          (if valb (peek st) (s "for") then
             if (n =? 1)%nat then rec PComprehension st else pfail (peek st)
           else ret st) >> expect (ch "}") in
        if first then expect (ch "{") st >> rec (PDict 0 false)
        else if negb (tyb t (ch "}")) then
          rec PExpression st >> expect (ch ":") >> rec PExpression >>
          after_sep (ch ",") (rec (PDict (S n) false)) (finish (S n))
        else finish n st

    | PSlice =>
        expect (ch "[") st >> optional (ch ":") >>= fun b st1 =>
        (if is_true b then ret st1
         else optional (ch ":") st1 >>= fun b' st2 =>
              if is_true b' then ret st2 else rec PExpression st2 >> optional (ch ":")) >> fun st3 =>
        if tyb (peek st3) (ch "]") then advance st3
        else rec PExpression st3 >> expect (ch "]")

    | PComprehension =>
        expectv (s "for") st >> rec PIdentList >> expectv (s "in") >> rec PUncond >>
        optionalv (s "for") >>= fun b st1 =>
        (if is_true b then rec PIdentList st1 >> expectv (s "in") >> rec PUncond else ret st1) >>
        optionalv (s "if") >>= fun b' st2 =>
        if is_true b' then rec PUncond st2 else ret st2

    | PLambda => expectv (s "lambda") st >> rec PLambdaArgs >> expect (ch ":") >> rec PExpression
    | PLambdaArgs =>
        if tyb t TIdent then
          advance st >> optional (ch "=") >>= fun b st1 =>
          (if is_true b then rec PExpression st1 else ret st1) >>
          after_sep (ch ",") (rec PLambdaArgs) ret
        else ret st

    | PFString =>
        expect TString st >> fun st1 =>
        match slice_checked (tval t) 2 (length (tval t) - 1) with   (* tok.Value[2:len-1] *)
        | None => PInternal
        | Some v =>
            match fstring_go (S (length v)) v (S (tpos t)) 0 with
            | FOk n => POk (VFStr n) st1
            | FErr p => PSyn p
            | FInternal => PInternal
            end
        end
    end.
End Parser.

Fixpoint run (isld : N -> bool) (bytes : str) (f : nat) : prod -> pstate -> pres :=
  match f with
  | O => fun _ _ => PDeep
  | S f' => step isld bytes f' (run isld bytes f')
  end.

(* parseFileInput on the raw file contents b *)
Definition parse (isld : N -> bool) (f : nat) (b : str) : pres :=
  let bytes := buffer b in
  match new_lexer isld bytes f with
  | LTok t l => run isld bytes f (PFile 0) (mkP l t false)
  | LErr p => PSyn p
  | LInternal => PInternal
  | LDeep => PDeep
  end.

Definition parse_fuel (b : str) : nat := (40 * length b + 100)%nat.

(* case files write byte strings with non-printable bytes as \hh (two lower-case hex digits) *)
Definition hexval (c : N) : N := if c <? 58 then c - 48 else c - 87.
Fixpoint unesc (l : str) : str :=
  match l with
  | 92 :: a :: b :: r => (16 * hexval a + hexval b) :: unesc r
  | c :: r => c :: unesc r
  | [] => []
  end.
Definition sx (x : string) : str := unesc (s x).
Arguments sx x%string.

(* ---- correspondence cases ---------------------------------------------------------------------- *)
Inductive lex_obs :=
| OLexOk (toks : list (Z * str * N))   (* positions and counts are written in binary in case files *)
| OLexErr (ntoks : N) (p : N)
| OLexOther.                       (* unpositioned error or a panic that is not an error *)

Inductive parse_obs :=
| OParseOk (nstatements : N)
| OParseErr (p : N)
| OParseOther.

Inductive case :=
| Case (input : str) (letters : list N) (lobs : lex_obs) (pobs : parse_obs).

Definition nat_is (a : nat) (b : N) : bool := N.of_nat a =? b.

Definition tok_eqb (t : tok) (o : Z * str * N) : bool :=
  let '(ty, v, p) := o in (ttype t =? ty)%Z && str_eqb (tval t) v && nat_is (tpos t) p.

Fixpoint toks_eqb (a : list tok) (b : list (Z * str * N)) : bool :=
  match a, b with
  | [], [] => true
  | x :: a', y :: b' => tok_eqb x y && toks_eqb a' b'
  | _, _ => false
  end.

Definition check (c : case) : bool :=
  match c with
  | Case input letters lobs pobs =>
      let isld r := existsb (N.eqb r) letters in
      (match lex_all isld (lex_fuel input) input, lobs with
       | LexOk toks, OLexOk otoks => toks_eqb toks otoks
       | LexErr toks p, OLexErr n q => nat_is (length toks) n && nat_is p q
       | LexInternal, OLexOther => true
       | _, _ => false
       end)
      &&
      (match parse isld (parse_fuel input) input, pobs with
       | POk (VNum n) _, OParseOk m => nat_is n m
       | PSyn p, OParseErr q => nat_is p q
       | PInternal, OParseOther => true
       | _, _ => false
       end)
  end.
