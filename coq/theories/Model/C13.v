(* C13 - remote (HTTP) and command caches store complete artifacts or nothing.
   Executable model of src/cache/http_cache.go (Store/write/storeFile/retrieve/readTar) and
   src/cache/cmd_cache.go (Store/write/Retrieve).  No proofs here.

   Abstraction.  A tar stream is a list of chunks, one per archive member (a 512-byte header
   block plus, for a regular file, its content padded to 512), followed by two zero blocks.
   `cut k` is the same stream truncated after k bytes.  gzip (HTTP only) is an integrity frame:
   a truncated response decompresses to a byte prefix of the tar stream followed by an ERROR,
   never by a clean end of file.  The store command of the command cache is external: what it
   leaves under the key is a parameter (`commit`), a byte prefix of what it was sent. *)
From PlzV Require Import Base.Harness.
From PlzV Require Import Gen.C13Exits.
Local Open Scope N_scope.

Definition rep (n b : N) : str := N.iter n (cons b) [].
Definition len (d : str) : N := N.of_nat (length d).
Definition take (k : N) (d : str) : str := firstn (N.to_nat k) d.

(* ---- the output directory ---- *)
Inductive node := NFile (d : str) | NDir | NLink (t : str).
Definition fs := list (str * node).          (* latest binding first *)

Fixpoint lookup (n : str) (disk : fs) : option node :=
  match disk with
  | [] => None
  | (k, v) :: r => if str_eqb n k then Some v else lookup n r
  end.

(* ---- tar streams ---- *)
Inductive chunk :=
| CReg (n : str) (size : N) (d : str)  (* header announcing `size` bytes + the bytes present *)
| CDir (n : str)
| CSym (n t : str)
| CZero                                 (* a block of 512 zero bytes *)
| CPartial.                             (* 1..511 bytes of a block *)

Definition pad512 (n : N) : N := ((n + 511) / 512) * 512.

Definition chunk_bytes (c : chunk) : N :=
  match c with
  | CReg _ sz _ => 512 + pad512 sz
  | CPartial => 1
  | _ => 512
  end.

Definition bytes (st : list chunk) : N := fold_right (fun c a => chunk_bytes c + a) 0 st.

Definition footer : list chunk := [CZero; CZero].

Definition complete (c : chunk) : bool :=
  match c with
  | CReg _ sz d => len d =? sz
  | CPartial => false
  | _ => true
  end.

(* the first k bytes of a stream *)
Fixpoint cut (k : N) (st : list chunk) : list chunk :=
  match st with
  | [] => []
  | c :: r =>
      if k =? 0 then [] else
      match c with
      | CReg n sz d =>
          if k <? 512 then [CPartial]
          else if 512 + pad512 sz <=? k then c :: cut (k - (512 + pad512 sz)) r
          else [CReg n sz (take (k - 512) d)]         (* inside the content or its padding *)
      | CPartial => [CPartial]
      | _ => if k <? 512 then [CPartial] else c :: cut (k - 512) r
      end
  end.

(* readTar (http_cache.go:172).  `clean` says how the underlying reader ends after the last
   chunk: true = io.EOF, false = an error (gzip's unexpected EOF, a closed pipe).
   tar.Reader: EOF exactly at a header position, or after exactly one zero block, is io.EOF;
   two zero blocks end the archive (nothing after them is read); EOF inside a block or inside
   file content is io.ErrUnexpectedEOF; EOF inside the padding is io.EOF.
   os.Symlink fails on an existing name; a regular file is created (O_TRUNC) before its
   content is copied, so a truncated member leaves a short file behind. *)
Definition mem (n : str) (disk : fs) : bool := match lookup n disk with Some _ => true | None => false end.

(* os.Symlink also needs the directory of the new name to exist; readTar creates missing parent
   directories only for regular files (MkdirAll(filepath.Dir(name))) and for directory members.
   `root` is the target's output directory, which exists before a retrieve. *)
Fixpoint drop_to_slash (l : str) : option str :=
  match l with
  | [] => None
  | c :: r => if c =? 47 then Some r else drop_to_slash r
  end.
Definition parent (n : str) : option str :=
  match drop_to_slash (rev n) with Some r => Some (rev r) | None => None end.
Fixpoint is_prefix (p m : str) : bool :=
  match p, m with
  | [], _ => true
  | x :: p', y :: m' => (x =? y) && is_prefix p' m'
  | _, [] => false
  end.
Definition has_dir (p : str) (disk : fs) : bool :=
  existsb (fun e => str_eqb (fst e) p || is_prefix (p ++ [47]) (fst e)) disk.
Definition parent_exists (root n : str) (disk : fs) : bool :=
  match parent n with
  | None => true
  | Some p => is_prefix (p ++ [47]) (root ++ [47]) || has_dir p disk
  end.

Fixpoint read_tar (root : str) (st : list chunk) (clean : bool) (disk : fs) : bool * fs :=
  match st with
  | [] => (if clean then readtar_eof_result else readtar_error_result, disk)
  | CZero :: r =>
      match r with
      | [] => (if clean then readtar_eof_result else readtar_error_result, disk)
      | CZero :: _ => (readtar_eof_result, disk)
      | _ => (readtar_error_result, disk)
      end
  | CPartial :: _ => (readtar_error_result, disk)
  | CDir n :: r => read_tar root r clean ((n, NDir) :: disk)
  | CSym n t :: r =>
      (* os.Symlink fails with EEXIST on ANY existing entry at the name, whatever it is and wherever
         it points (readtar_symlink_exists_is_error: what readTar does with that error, regenerated
         from the tar.TypeSymlink case); tolerated, the member is skipped and what occupies the
         path stays *)
      if (readtar_symlink_exists_is_error && mem n disk) || negb (parent_exists root n disk)
      then (readtar_error_result, disk)
      else if mem n disk then read_tar root r clean disk
      else read_tar root r clean ((n, NLink t) :: disk)
  | CReg n sz d :: r =>
      if len d =? sz then read_tar root r clean ((n, NFile d) :: disk)
      else (readtar_error_result, (n, NFile d) :: disk)
  end.

(* ---- the outputs being stored ---- *)
Inductive tree :=
| TFile (n c : str)
| TLink (n t : str)
| TDir (n : str) (ch : list tree)              (* children in name order (godirwalk sorts) *)
| TSock (n : str)                              (* exists but tar.FileInfoHeader rejects it *)
| TShort (n : str) (size : N) (got : str)      (* header written, reading the content fails after `got` *)
| TMissing (n : str).                          (* Lstat fails: the declared output is not there *)

(* fs.Walk + storeFile: the chunks written before the first error, and whether there was none.

   Errors of entries INSIDE a directory output come back from godirwalk's callback and go through
   its ErrorCallback; `act` is what fs.WalkMode configures there (regenerated from src/fs/walk.go:
   no ErrorCallback = halt on every error).  WSkipEnoent is the variant that leaves out an entry
   that no longer exists when it is visited (TMissing below a directory: the entry was listed
   with its directory and had vanished when storeFile reached it) and goes on with its siblings. *)
Definition skippable (act : walk_error_action) (t : tree) : bool :=
  match act with
  | WHalt => false
  | WSkipEnoent => match t with TMissing _ => true | _ => false end
  end.

Fixpoint walk_a (act : walk_error_action) (t : tree) : list chunk * bool :=
  match t with
  | TFile n c => ([CReg n (len c) c], true)
  | TLink n t => ([CSym n t], true)
  | TDir n ch =>
      let fix go (l : list tree) : list chunk * bool :=
        match l with
        | [] => ([], true)
        | x :: r => let '(a, ok) := walk_a act x in
                    if ok then let '(b, ok') := go r in (a ++ b, ok')
                    else if skippable act x then go r          (* nothing of x was written *)
                    else (a, false)
        end in
      let '(b, ok) := go ch in (CDir n :: b, ok)
  | TSock _ => ([], false)
  | TShort n sz got => ([CReg n sz got], false)
  | TMissing _ => ([], false)
  end.

(* `for _, out := range files { if err := fs.Walk(...); err != nil { ...; return } }`
   The root path of each walk is Lstat'ed by fs.WalkMode itself, whose error is returned
   directly: a declared output that does not exist always ends the loop. *)
Fixpoint write_a (act : walk_error_action) (files : list tree) : list chunk * bool :=
  match files with
  | [] => ([], true)
  | x :: r => let '(a, ok) := walk_a act x in
              if ok then let '(b, ok') := write_a act r in (a ++ b, ok') else (a, false)
  end.

Definition walk : tree -> list chunk * bool := walk_a walk_callback_error_action.
Definition write : list tree -> list chunk * bool := write_a walk_callback_error_action.

(* ---- fault positions in walk order: an entry that vanishes during the store ----
   Nodes are numbered in the order fs.Walk visits them (a directory, then its children in name
   order, depth first), through the whole list of declared outputs.  `vanish t i` is t with
   node i gone (with everything below it) by the time it is visited: at a top-level position
   that is a declared output that does not exist, below a directory it is an entry that was
   listed and then removed. *)
Fixpoint size (t : tree) : nat :=
  match t with
  | TDir _ ch => S ((fix go (l : list tree) : nat := match l with [] => O | x :: r => (size x + go r)%nat end) ch)
  | _ => 1%nat
  end.

Definition name_of (t : tree) : str :=
  match t with
  | TFile n _ | TLink n _ | TDir n _ | TSock n | TShort n _ _ | TMissing n => n
  end.

Fixpoint vanish (t : tree) (i : nat) {struct t} : tree :=
  match i with
  | O => TMissing (name_of t)
  | S j =>
      match t with
      | TDir n ch =>
          TDir n ((fix go (l : list tree) (j : nat) {struct l} : list tree :=
                     match l with
                     | [] => []
                     | x :: r => if (j <? size x)%nat then vanish x j :: r else x :: go r (j - size x)%nat
                     end) ch j)
      | _ => t
      end
  end.

Fixpoint size_list (l : list tree) : nat :=
  match l with [] => O | x :: r => (size x + size_list r)%nat end.

Fixpoint vanish_list (l : list tree) (j : nat) : list tree :=
  match l with
  | [] => []
  | x :: r => if (j <? size x)%nat then vanish x j :: r else x :: vanish_list r (j - size x)%nat
  end.

(* the loop with an error branch that only logs (the code before the fix of httpCache.write) *)
Fixpoint write_continue (files : list tree) : list chunk :=
  match files with
  | [] => []
  | x :: r => fst (walk x) ++ write_continue r
  end.

Definition at_boundary (st : list chunk) : bool := forallb complete st.

(* ---- HTTP cache ---- *)
Definition blob := list chunk.       (* what the server holds for the key: the tar stream *)

(* Store: write feeds a pipe that retryablehttp.NewRequest reads completely (io.ReadAll) before
   any request is made; CloseWithError makes NewRequest fail, so nothing is sent.  `put_ok`:
   the PUT (with its retries) reached the server completely; a server stores only complete bodies. *)
Definition http_body (files : list tree) : option blob :=
  let '(st, ok) := write files in
  if ok then Some (st ++ footer)
  else match http_write_fault_exit with
       | FCloseWithError => None
       | FContinue => let st' := write_continue files in
                      if at_boundary st' then Some (st' ++ footer) else None
       end.

Definition http_store (server : option blob) (files : list tree) (put_ok : bool) : option blob :=
  match http_body files with
  | Some b => if put_ok then Some b else server
  | None => server
  end.

Inductive get_fault :=
| GetOk
| GetStatus                 (* neither 200 nor 404, or the request itself fails *)
| GetCut (k : N).           (* body cut short; k = bytes of tar stream that decompress before the error *)

Definition http_retrieve (root : str) (server : option blob) (g : get_fault) (disk : fs) : bool * fs :=
  match server with
  | None => (false, disk)
  | Some b =>
      match g with
      | GetOk => read_tar root b true disk
      | GetStatus => (false, disk)
      | GetCut k => read_tar root (cut k b) false disk
      end
  end.

(* ---- command cache ---- *)
(* write (cmd_cache.go:113): on a walk error cancel() and return; the DEFERRED tw.Close() then
   still runs and, when no member is half written, appends the two zero blocks; the deferred
   w.Close() ends the command's stdin cleanly.  cancel() kills only the `sh` process. *)
Definition cmd_sent (files : list tree) : blob :=
  let '(st, _) := write files in
  if cmd_write_deferred_tar_close && at_boundary st then st ++ footer else st.

(* what the store command leaves under the key: nothing (None) or the first k bytes it was sent *)
Definition cmd_store (store : option blob) (files : list tree) (commit : option N) : option blob :=
  match commit with
  | None => store
  | Some k => Some (cut k (cmd_sent files))
  end.

(* Retrieve: the command's stdout is copied into an io.Pipe that nobody closes for writing; after
   cmd.Wait the READ end is closed, so the tar reader never sees a clean EOF: it must find the
   two zero blocks.  Result: tarOk && <-cmdResult.  `rcut`: the command emitted only that many
   bytes; `exit_ok`: it exited 0.  A missing key: the command fails with no output. *)
Definition cmd_retrieve (root : str) (store : option blob) (rcut : option N) (exit_ok : bool) (disk : fs) : bool * fs :=
  match store with
  | None => (false, disk)
  | Some b =>
      let '(t, d) := read_tar root (match rcut with None => b | Some k => cut k b end)
                              (negb cmd_retrieve_closes_reader) disk in
      (t && (if cmd_retrieve_needs_exit_ok then exit_ok else true), d)
  end.

(* ---- what a complete restore looks like (specification side) ---- *)
Fixpoint healthy (t : tree) : bool :=
  match t with
  | TFile _ _ | TLink _ _ => true
  | TDir _ ch => forallb healthy ch
  | _ => false
  end.

Fixpoint expected (t : tree) : list (str * node) :=
  match t with
  | TFile n c => [(n, NFile c)]
  | TLink n t => [(n, NLink t)]
  | TDir n ch => (n, NDir) :: flat_map expected ch
  | TSock n => [(n, NFile [])]
  | TShort n _ got => [(n, NFile got)]
  | TMissing n => [(n, NFile [])]
  end.

Definition all_healthy (files : list tree) : bool := forallb healthy files.
Definition all_expected (files : list tree) : list (str * node) := flat_map expected files.

(* ---- follow-up 2: when the cancel reaches the store command ----
   cmdCache.Store starts the archive writer (go write(...)) BEFORE cmd.CombinedOutput() creates the
   process.  io.Pipe is synchronous and archive/tar writes each header straight through, so once
   the writer has written anything the process exists (the write returned only after the
   command's stdin copier had read it).  A read fault with NOTHING written yet (the first declared
   output is missing or cannot be archived) can therefore reach cancel() before the process exists:
   `sched` is that race.  With a context (KContext) cmd.Start then refuses to run the command;
   with a guarded cmd.Process.Kill() (KProcessIfStarted) the cancel is dropped and the command
   runs to its end on the archive the deferred Close calls finish. *)
Inductive sched := CancelBeforeStart | CancelAfterStart.
Inductive fate := NeverRan | Killed | RanToEnd.

Definition cmd_fate_k (ks : kill_switch) (files : list tree) (sc : sched) : fate :=
  let '(st, ok) := write files in
  if ok || negb cmd_write_fault_cancels then RanToEnd else
  match sc, st with
  | CancelBeforeStart, [] =>
      if cmd_store_writer_precedes_start
      then match ks with KContext => NeverRan | KProcessIfStarted => RanToEnd end
      else Killed
  | _, _ => Killed
  end.
Definition cmd_fate : list tree -> sched -> fate := cmd_fate_k cmd_store_kill_switch.

(* a store command that publishes under the key only when it ran to its end, and then everything
   it read (`cat > tmp && mv tmp final`, the rename done by the killed process itself) *)
Definition atomic_commit (f : fate) (sent : blob) : option N :=
  match f with RanToEnd => Some (bytes sent) | _ => None end.

Definition cmd_store_atomic_k (ks : kill_switch) (store : option blob) (files : list tree) (sc : sched) : option blob :=
  cmd_store store files (atomic_commit (cmd_fate_k ks files sc) (cmd_sent files)).
Definition cmd_store_atomic := cmd_store_atomic_k cmd_store_kill_switch.

(* ---- follow-up 2: the cache multiplexer (cache.go) over an HTTP and a command cache ----
   State: per cache, in priority order, what it holds under the key.  The declared outputs are
   plain paths; a Store reads them from the output directory as it is at that moment. *)
Inductive ckind := KHttp | KCmd.
Definition mstate := list (ckind * option blob).

Definition of_disk (disk : fs) (n : str) : tree :=
  match lookup n disk with
  | Some (NFile d) => TFile n d
  | Some (NLink t) => TLink n t
  | Some NDir => TDir n []          (* directory outputs are outside this part of the model *)
  | None => TMissing n
  end.

(* transport of one Store: None = nothing arrives (PUT fails / the command keeps nothing),
   Some k = the PUT arrives / the command keeps the first k bytes it was sent *)
Definition store_one (k : ckind) (e : option blob) (files : list tree) (sf : option N) : option blob :=
  match k with
  | KHttp => http_store e files (match sf with Some _ => true | None => false end)
  | KCmd => cmd_store e files sf
  end.

Record rfault := RF { rf_get : get_fault; rf_cut : option N; rf_exit : bool }.
Definition rf_none : rfault := RF GetOk None true.

Definition retrieve_one (root : str) (k : ckind) (e : option blob) (rf : rfault) (disk : fs) : bool * fs :=
  match k with
  | KHttp => http_retrieve root e (rf_get rf) disk
  | KCmd => cmd_retrieve root e (rf_cut rf) (rf_exit rf) disk
  end.

(* storeUntil: Store into every cache in front of index `stop` (on distinct caches: independent) *)
Fixpoint store_until (stop : nat) (st : mstate) (files : list tree) (sfs : list (option N)) : mstate :=
  match stop, st with
  | S j, (k, e) :: r => (k, store_one k e files (hd None sfs)) :: store_until j r files (tl sfs)
  | _, _ => st
  end.

(* the Retrieve loop: caches are asked in order, each unpacking into the SAME output directory,
   until one hits *)
Fixpoint first_hit (root : str) (st : mstate) (rfs : list rfault) (disk : fs) (i : nat) : option nat * fs :=
  match st with
  | [] => (None, disk)
  | (k, e) :: r => let '(h, d) := retrieve_one root k e (hd rf_none rfs) disk in
                   if h then (Some i, d) else first_hit root r (tl rfs) d (S i)
  end.

Definition mplex_retrieve_b (backfill_on_total_miss : bool) (root : str) (declared : list str) (st : mstate)
    (rfs : list rfault) (sfs : list (option N)) (disk : fs) : bool * mstate * fs :=
  let '(hit, d) := first_hit root st rfs disk 0 in
  let files := map (of_disk d) declared in
  match hit with
  | Some i => (true, store_until i st files sfs, d)
  | None => (false, if backfill_on_total_miss then store_until (length st) st files sfs else st, d)
  end.
Definition mplex_retrieve := mplex_retrieve_b mplex_backfill_on_total_miss.

Definition mplex_store (declared : list str) (st : mstate) (sfs : list (option N)) (disk : fs) : mstate :=
  store_until (length st) st (map (of_disk disk) declared) sfs.

(* histories: the target is built (its outputs `ref` are in a fresh output directory) and stored;
   the output directory is emptied; the key is retrieved *)
Inductive op :=
| OBuild (sfs : list (option N))
| OWipe
| ORetrieve (rfs : list rfault) (sfs : list (option N)).

Definition mstep (root : str) (ref : list tree) (s : mstate * fs) (o : op) : (mstate * fs) * option bool :=
  let '(st, disk) := s in
  let declared := map name_of ref in
  match o with
  | OBuild sfs => let d := all_expected ref in ((mplex_store declared st sfs d, d), None)
  | OWipe => ((st, []), None)
  | ORetrieve rfs sfs => let '(h, st', d) := mplex_retrieve root declared st rfs sfs disk in ((st', d), Some h)
  end.

Fixpoint mexec (root : str) (ref : list tree) (s : mstate * fs) (ops : list op) : mstate * fs :=
  match ops with
  | [] => s
  | o :: r => mexec root ref (fst (mstep root ref s o)) r
  end.

Fixpoint flat (files : list tree) : bool :=
  match files with
  | [] => true
  | (TFile _ _ | TLink _ _) :: r => flat r
  | _ => false
  end.


(* ---- correspondence cases ---- *)
Definition node_eqb (a b : node) : bool :=
  match a, b with
  | NFile x, NFile y => str_eqb x y
  | NDir, NDir => true
  | NLink x, NLink y => str_eqb x y
  | _, _ => false
  end.

Definition chunk_name (c : chunk) : option str :=
  match c with
  | CReg n _ _ | CDir n | CSym n _ => Some n
  | _ => None
  end.

Fixpoint names (st : list chunk) : list str :=
  match st with
  | [] => []
  | c :: r => match chunk_name c with Some n => n :: names r | None => names r end
  end.

Definition disk_matches (disk : fs) (obs : list (str * option node)) : bool :=
  forallb (fun p => option_eqb node_eqb (lookup (fst p) disk) (snd p)) obs.

Definition names_eqb := list_eqb str_eqb.

Inductive case :=
(* store `files` to an empty server, then retrieve into an empty output directory.
   observed: whether the server holds an entry afterwards, its decompressed length and member
   names, the result of Retrieve, and what is at each candidate path afterwards *)
| CHttp (root : str) (files : list tree) (put_ok : bool) (g : get_fault)
        (stored : bool) (tar_len : N) (members : list str) (hit : bool) (disk : list (str * option node))
(* store `files` through a store command that left `commit` bytes under the key, then retrieve
   through a command that emits the first `rcut` bytes of the entry and exits 0 iff exit_ok *)
| CCmd (root : str) (files : list tree) (commit : option N) (whole : bool) (rcut : option N) (exit_ok : bool)
       (members : list str) (hit : bool) (disk : list (str * option node))
(* the same two with node `pos` (walk order) of the otherwise intact `files` removed DURING the
   store, after its directory had been listed and before the archive writer reached it *)
| CHttpV (root : str) (files : list tree) (pos : nat) (put_ok : bool) (g : get_fault)
         (stored : bool) (tar_len : N) (members : list str) (hit : bool) (disk : list (str * option node))
| CCmdV (root : str) (files : list tree) (pos : nat) (commit : option N) (whole : bool) (rcut : option N) (exit_ok : bool)
        (members : list str) (hit : bool) (disk : list (str * option node))
(* follow-up 2 *)
(* a store through a command that publishes only when it ran to its end (tmp + mv by sh itself),
   then a fault-free retrieve; observed: whether an entry was published, its length and members *)
| CCmdAtomic (root : str) (files : list tree)
             (stored : bool) (tar_len : N) (members : list str) (hit : bool) (disk : list (str * option node))
(* a fault-free store, then a retrieve into an output directory that already holds `pre` *)
| CHttpInto (root : str) (files : list tree) (pre : list (str * node)) (g : get_fault)
            (hit : bool) (disk : list (str * option node))
| CCmdInto (root : str) (files : list tree) (pre : list (str * node)) (rcut : option N) (exit_ok : bool)
           (hit : bool) (disk : list (str * option node))
(* a history on the multiplexer over `kinds`; after each operation: the result of Retrieve, what
   each cache holds under the key (stored, length, members) and the output directory *)
| CMplex (root : str) (ref : list tree) (kinds : list ckind)
         (steps : list (op * (option bool * list (bool * N * list str) * list (str * option node)))).

Definition entry_matches (e : ckind * option blob) (o : bool * N * list str) : bool :=
  let '(stored, ln, mem) := o in
  match snd e with
  | None => negb stored
  | Some b => stored && (bytes b =? ln) && names_eqb (names b) mem
  end.

Fixpoint all2 {A B} (f : A -> B -> bool) (a : list A) (b : list B) : bool :=
  match a, b with
  | [], [] => true
  | x :: a', y :: b' => f x y && all2 f a' b'
  | _, _ => false
  end.

Fixpoint check_mplex (root : str) (ref : list tree) (s : mstate * fs)
    (steps : list (op * (option bool * list (bool * N * list str) * list (str * option node)))) : bool :=
  match steps with
  | [] => true
  | (o, (res, ents, dk)) :: r =>
      let '(s', h) := mstep root ref s o in
      option_eqb Bool.eqb h res && all2 entry_matches (fst s') ents && disk_matches (snd s') dk
      && check_mplex root ref s' r
  end.

Definition check_cmd_atomic (root : str) (files : list tree)
    (stored : bool) (tar_len : N) (members : list str) (hit : bool) (disk : list (str * option node)) : bool :=
  existsb (fun sc =>
    let sv := cmd_store_atomic None files sc in
    let '(h, d) := cmd_retrieve root sv None true [] in
    entry_matches (KCmd, sv) (stored, tar_len, members) && Bool.eqb h hit && disk_matches d disk)
  [CancelBeforeStart; CancelAfterStart].

Definition check_http (root : str) (files : list tree) (put_ok : bool) (g : get_fault)
    (stored : bool) (tar_len : N) (members : list str) (hit : bool) (disk : list (str * option node)) : bool :=
  let sv := http_store None files put_ok in
  let '(h, d) := http_retrieve root sv g [] in
  match sv with
  | None => negb stored
  | Some b => stored && (bytes b =? tar_len) && names_eqb (names b) members
  end && Bool.eqb h hit && disk_matches d disk.

Definition check_cmd (root : str) (files : list tree) (commit : option N) (whole : bool) (rcut : option N) (exit_ok : bool)
    (members : list str) (hit : bool) (disk : list (str * option node)) : bool :=
  let sent := cmd_sent files in
  let sv := cmd_store None files commit in
  let '(h, d) := cmd_retrieve root sv rcut exit_ok [] in
  match commit with
  | None => negb whole
  | Some k => (k <=? bytes sent) && (if whole then k =? bytes sent else true)
  end
  && names_eqb (match sv with Some b => names b | None => [] end) members
  && Bool.eqb h hit && disk_matches d disk.

Definition check (c : case) : bool :=
  match c with
  | CHttp root files put_ok g stored tar_len members hit disk =>
      check_http root files put_ok g stored tar_len members hit disk
  | CCmd root files commit whole rcut exit_ok members hit disk =>
      check_cmd root files commit whole rcut exit_ok members hit disk
  | CHttpV root files pos put_ok g stored tar_len members hit disk =>
      (pos <? size_list files)%nat && all_healthy files &&
      check_http root (vanish_list files pos) put_ok g stored tar_len members hit disk
  | CCmdV root files pos commit whole rcut exit_ok members hit disk =>
      (pos <? size_list files)%nat && all_healthy files &&
      check_cmd root (vanish_list files pos) commit whole rcut exit_ok members hit disk
  | CCmdAtomic root files stored tar_len members hit disk =>
      check_cmd_atomic root files stored tar_len members hit disk
  | CHttpInto root files pre g hit disk =>
      let '(h, d) := http_retrieve root (http_store None files true) g pre in
      all_healthy files && Bool.eqb h hit && disk_matches d disk
  | CCmdInto root files pre rcut exit_ok hit disk =>
      let '(h, d) := cmd_retrieve root (cmd_store None files (Some (bytes (cmd_sent files)))) rcut exit_ok pre in
      all_healthy files && Bool.eqb h hit && disk_matches d disk
  | CMplex root ref kinds steps =>
      flat ref && check_mplex root ref (map (fun k => (k, None)) kinds, []) steps
  end.
