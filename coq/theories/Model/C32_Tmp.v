(* C32 (follow-up) - the work directory plz-out/tmp/<target>._build as state that survives a kill.
   Executable model of what one target build does to it, in code order
   (src/build/build_step.go buildTarget:281 prepareDirectories, :318 prepareSources, :323 build, :408 CleanWorkdirs;
    prepareDirectories:576, prepareDirectory:586 = `if remove { fs.RemoveAll }`, os.MkdirAll, checkForStaleOutput:798),
   of a small closed language of LEFTOVER-SENSITIVE build commands (>> append, mkdir without -p, [ -e x ] || ...),
   and of the two together with the persistent steps of Model/C32.v.  No proofs here. *)
From PlzV Require Import Base.Harness Model.C32.

(* ------------------------------------------------------------------------------------------ *)
(* The work directory *)

Inductive node := NFile (data : str) | NDir.
Definition dir := list (name * node).                 (* what the command created; the source links are not entries *)
Inductive tdir := TAbsent | TNotDir | TDir (d : dir). (* nothing there / something that is not a directory / a directory *)

Fixpoint lookup (d : dir) (n : name) : option node :=
  match d with
  | [] => None
  | (m, v) :: r => if str_eqb n m then Some v else lookup r n
  end.

Fixpoint set (d : dir) (n : name) (v : node) : dir :=
  match d with
  | [] => [(n, v)]
  | (m, w) :: r => if str_eqb n m then (m, v) :: r else (m, w) :: set r n v
  end.

Fixpoint del (d : dir) (n : name) : dir :=
  match d with
  | [] => []
  | (m, w) :: r => if str_eqb n m then del r n else (m, w) :: del r n
  end.

Definition is_dir (T : tdir) : bool := match T with TDir _ => true | _ => false end.

(* ------------------------------------------------------------------------------------------ *)
(* The command language.  One step = one simple command of the bash text; plz can be killed between any two. *)

Inductive arg := ASrc (n : name) | ALit (c : str) | AFile (n : name).

Inductive cstep :=
| Write (f : name) (a : arg)          (* cat a > f *)
| Append (f : name) (a : arg)         (* cat a >> f *)
| Mkdir (f : name)                    (* mkdir f        - fails when f exists *)
| Rmdir (f : name)                    (* rmdir f *)
| Remove (f : name)                   (* rm -f f *)
| SkipIfExists (f : name) (n : nat).  (* [ -e f ] || { the next n steps } *)

Definition eval (srcs : list (name * str)) (d : dir) (a : arg) : option str :=
  match a with
  | ASrc n => match find (fun kv => str_eqb n (fst kv)) srcs with Some kv => Some (snd kv) | None => None end
  | ALit c => Some c
  | AFile n => match lookup d n with Some (NFile c) => Some c | _ => None end
  end.

(* one step: None = the command fails (exit status <> 0), else the new directory and the number of steps to skip *)
Definition exec1 (srcs : list (name * str)) (x : cstep) (d : dir) : option (dir * nat) :=
  match x with
  | Write f a =>
      match eval srcs d a, lookup d f with
      | Some c, Some NDir => None
      | Some c, _ => Some (set d f (NFile c), 0)
      | None, _ => None
      end
  | Append f a =>
      match eval srcs d a, lookup d f with
      | Some c, Some NDir => None
      | Some c, Some (NFile o) => Some (set d f (NFile (o ++ c)), 0)
      | Some c, None => Some (set d f (NFile c), 0)
      | None, _ => None
      end
  | Mkdir f => match lookup d f with None => Some (set d f NDir, 0) | Some _ => None end
  | Rmdir f => match lookup d f with Some NDir => Some (del d f, 0) | _ => None end
  | Remove f => match lookup d f with Some NDir => None | _ => Some (del d f, 0) end
  | SkipIfExists f n => Some (d, match lookup d f with Some _ => n | None => 0 end)
  end.

(* ------------------------------------------------------------------------------------------ *)
(* The steps of one build on the work directory *)

Inductive tstep :=
| TWipe                 (* prepareDirectory(target.TmpDir(), true): fs.RemoveAll under its condition *)
| TMk                   (*   os.MkdirAll (checkForStaleOutput removes a file that is in the way, then again) *)
| TCmd (c : cstep)      (* build: the command, one simple command at a time *)
| TTake (n : name)      (* moveOutput: os.Rename(tmpOutput, realOutput) takes the output out of the directory *)
| TClean.               (* state.CleanWorkdirs: fs.RemoveAll(target.TmpDir()) after the build *)

(* the machine: the directory, how many command steps a guard still skips, whether the build has failed *)
Record tm := mkTm { tm_dir : tdir; tm_skip : nat; tm_fail : bool }.

Definition start (T : tdir) : tm := mkTm T 0 false.

Section Wipe.
  (* the condition under which prepareDirectory removes the directory, as a function of its `remove` argument
     and of fs.IsDirectory(directory) *)
  Variable wc : bool -> bool -> bool.
  Variable srcs : list (name * str).

  Definition trun1 (x : tstep) (m : tm) : tm :=
    if tm_fail m then m else
    match x with
    | TWipe => if wc true (is_dir (tm_dir m)) then mkTm TAbsent 0 false else m
    | TMk => match tm_dir m with TDir _ => m | _ => mkTm (TDir []) 0 false end
    | TCmd c =>
        match tm_dir m, tm_skip m with
        | TDir d, S k => mkTm (TDir d) k false
        | TDir d, O => match exec1 srcs c d with
                       | Some (d', sk) => mkTm (TDir d') sk false
                       | None => mkTm (TDir d) 0 true
                       end
        | _, _ => mkTm (tm_dir m) 0 true
        end
    | TTake n => match tm_dir m with TDir d => mkTm (TDir (del d n)) 0 false | _ => m end
    | TClean => mkTm TAbsent 0 false
    end.

  Definition trun (l : list tstep) (m : tm) : tm := fold_left (fun a x => trun1 x a) l m.

  (* prepareDirectory(target.TmpDir(), true) *)
  Definition prep_steps : list tstep := [TWipe; TMk].

  (* buildTarget up to the end of the command *)
  Definition cmd_steps (cmd : list cstep) : list tstep := prep_steps ++ map TCmd cmd.

  Definition after_cmd (cmd : list cstep) (T : tdir) : tm := trun (cmd_steps cmd) (start T).

  Definition file_of (m : tm) (n : name) : option str :=
    match tm_dir m with
    | TDir d => match lookup d n with Some (NFile c) => Some c | _ => None end
    | _ => None
    end.

  Definition has_file (m : tm) (n : name) : bool := match file_of m n with Some _ => true | None => false end.

  (* the command succeeded and left every declared output ("Rule ... failed to create output" otherwise) *)
  Definition cmd_ok (cmd : list cstep) (outs : list name) (T : tdir) : bool :=
    negb (tm_fail (after_cmd cmd T)) && forallb (has_file (after_cmd cmd T)) outs.

  (* what a build that finds the work directory in state T leaves as outputs; None = the build fails *)
  Definition produced (cmd : list cstep) (outs : list name) (T : tdir) : option (list (name * str)) :=
    if cmd_ok cmd outs T then
      Some (map (fun n => (n, match file_of (after_cmd cmd T) n with Some c => c | None => [] end)) outs)
    else None.

  (* the work directory after a build killed at the k-th step of [prepare; command] *)
  Definition tcrash (cmd : list cstep) (k : nat) (T : tdir) : tdir :=
    tm_dir (trun (firstn k (cmd_steps cmd)) (start T)).

  (* ---------------------------------------------------------------------------------------- *)
  (* Work directory and plz-out together: one target, its command, the persistent steps of Model/C32.v *)

  Variable cid : str -> content.        (* the identity of a file's bytes (its hash) *)
  Variable cmd : list cstep.
  Variable t : target.
  Variable dirouts : list name.
  Variable cur : rec.

  (* the build that a plz finding the work directory in state T runs: its outputs are what the command leaves *)
  Definition bld_of (T : tdir) (force : bool) : build :=
    mkB dirouts (fun n => match file_of (after_cmd cmd T) n with Some c => cid c | None => junk end) cur force.

  Definition xst := (tdir * st)%type.

  Inductive xstep := XT (x : tstep) | XS (x : step).

  Definition xrun1 (x : xstep) (s : xst) : xst :=
    match x with
    | XT y => (tm_dir (trun1 y (start (fst s))), snd s)
    | XS y => (match y with MvOut n _ => tm_dir (trun1 (TTake n) (start (fst s))) | _ => fst s end, run1 y (snd s))
    end.

  (* the steps after the command: StoreTargetMetadata, moveOutputs, record (Model/C32.v), then CleanWorkdirs *)
  Definition post_steps (T : tdir) (force : bool) (s : st) : list xstep :=
    map XS (build_steps t (bld_of T force) s) ++ [XT TClean].

  (* a build killed after k steps. The first length (cmd_steps cmd) of them are the work directory's; if the
     command fails the build stops there (RemoveOutputs after a failed build is not modelled). *)
  Definition xcrash (k : nat) (force : bool) (s : xst) : xst :=
    let n := length (cmd_steps cmd) in
    if Nat.leb k n then (tcrash cmd k (fst s), snd s)
    else
      let m := after_cmd cmd (fst s) in
      if cmd_ok cmd (all_outs t (bld_of (fst s) force)) (fst s)
      then fold_left (fun a x => xrun1 x a) (firstn (k - n) (post_steps (fst s) force (snd s))) (tm_dir m, snd s)
      else (tm_dir m, snd s).

  Definition xstep_event (s : xst) (e : event) : xst :=
    match decide t (bld_of (fst s) (fst e)) (snd s) with
    | Rebuild => xcrash (snd e) (fst e) s
    | _ => s
    end.

  Definition xafter (evs : list event) (s : xst) : xst := fold_left xstep_event evs s.

  (* the next NORMAL `plz build` of the same tree *)
  Definition xrecover (s : xst) : option xst :=
    let b := bld_of (fst s) false in
    match decide t b (snd s) with
    | Rebuild =>
        if cmd_ok cmd (all_outs t b) (fst s) then Some (TAbsent, full t b (snd s)) else None
    | Reuse => Some s
    | Fail => None
    end.

  (* the clean build: empty plz-out, no work directory *)
  Definition xclean : st := full t (bld_of TAbsent false) empty_st.
End Wipe.

(* prepareDirectory: `if remove { fs.RemoveAll(directory) }` *)
Definition wipe_cond (remove is_directory : bool) : bool := remove.

(* ------------------------------------------------------------------------------------------ *)
(* Correspondence case: a history of builds of one leftover-sensitive target, each killed while its command was at
   its k-th simple command; the work directory found after the last kill; what the next normal build left in
   plz-out/gen (None = it failed). *)

Definition node_eqb (a b : node) : bool :=
  match a, b with NFile c, NFile d => str_eqb c d | NDir, NDir => true | _, _ => false end.

Definition dir_sub (a b : dir) : bool :=
  forallb (fun kv => option_eqb node_eqb (lookup a (fst kv)) (lookup b (fst kv))) a.

Definition tdir_eqb (a b : tdir) : bool :=
  match a, b with
  | TAbsent, TAbsent | TNotDir, TNotDir => true
  | TDir x, TDir y => dir_sub x y && dir_sub y x
  | _, _ => false
  end.

Definition outs_eqb (a b : list (name * str)) : bool :=
  list_eqb (fun x y => str_eqb (fst x) (fst y) && str_eqb (snd x) (snd y)) a b.

Inductive tcase :=
| CTmp (srcs : list (name * str)) (cmd : list cstep) (outs : list name) (ks : list nat)
       (obs_tmp : tdir) (obs_out : option (list (name * str))).

Definition tcheck (c : tcase) : bool :=
  match c with
  | CTmp srcs cmd outs ks obs_tmp obs_out =>
      let T := fold_left (fun T k => tcrash wipe_cond srcs cmd (length prep_steps + k) T) ks TAbsent in
      tdir_eqb T obs_tmp && option_eqb outs_eqb (produced wipe_cond srcs cmd outs T) obs_out
  end.

(* the case type of the harness: the cases of Model/C32.v and the work directory cases *)
Inductive xcase := Old (c : C32.case) | Tmp (c : tcase).
Definition xcheck (c : xcase) : bool := match c with Old c => C32.check c | Tmp c => tcheck c end.
