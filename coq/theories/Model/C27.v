(* C27 - coverage aggregation.  Executable model of core.MergeCoverageLines and
   TestCoverage.Aggregate (src/core/test_results.go).  No proofs here. *)
From PlzV Require Import Base.Harness.

(* A line state is the numeric value of the Go enum LineCoverage (Gen/CoverageOrder.v ties
   the numbering to the source).  `>` on the enum is `>` on N. *)
Definition cov := N.

Definition best (e c : cov) : cov := if N.ltb e c then c else e.

(* ret := copy(existing); for i, line := range coverage { if i >= len(ret) append
   else if coverage[i] > ret[i] { ret[i] = coverage[i] } } *)
Fixpoint merge (existing coverage : list cov) : list cov :=
  match existing, coverage with
  | [], c => c
  | e, [] => e
  | e :: es, c :: cs => best e c :: merge es cs
  end.

(* TestCoverage.Files : map[string][]LineCoverage, as an association list; a missing key
   is Go's nil slice, i.e. []. *)
Definition files := list (str * list cov).

Fixpoint lookup (f : str) (m : files) : list cov :=
  match m with
  | [] => []
  | (k, v) :: r => if str_eqb f k then v else lookup f r
  end.

Fixpoint set (f : str) (v : list cov) (m : files) : files :=
  match m with
  | [] => [(f, v)]
  | (k, w) :: r => if str_eqb f k then (k, v) :: r else (k, w) :: set f v r
  end.

(* for filename, c := range cov.Files { coverage.Files[filename] = Merge(coverage.Files[filename], c) }
   Go iterates cov.Files in an unspecified order; `run` lists it in some order. *)
Definition aggregate (acc : files) (run : files) : files :=
  fold_left (fun a kv => set (fst kv) (merge (lookup (fst kv) a) (snd kv)) a) run acc.

Definition aggregate_all (runs : list files) : files := fold_left aggregate runs [].

Definition keys (m : files) : list str := map fst m.

(* TestCoverage.Tests : map[BuildLabel]map[string][]LineCoverage.  A run (the coverage object of one
   finished test) carries its label and its files; Aggregate does `coverage.Tests[label] = c` for every
   label of the incoming object (last writer wins) and merges the Files. *)
Definition trun := (str * files)%type.          (* label, files *)
Definition tests := list (str * files).

Fixpoint tset (l : str) (v : files) (m : tests) : tests :=
  match m with
  | [] => [(l, v)]
  | (k, w) :: r => if str_eqb l k then (k, v) :: r else (k, w) :: tset l v r
  end.

Fixpoint tlookup (l : str) (m : tests) : option files :=
  match m with
  | [] => None
  | (k, v) :: r => if str_eqb l k then Some v else tlookup l r
  end.

Definition aggregate_t (acc : tests * files) (r : trun) : tests * files :=
  (tset (fst r) (snd r) (fst acc), aggregate (snd acc) (snd r)).

Definition aggregate_all_t (runs : list trun) : tests * files := fold_left aggregate_t runs ([], []).

(* ---- correspondence cases ---- *)
Inductive case :=
| CMerge (a b out : list cov)
| CAgg (runs : list files) (observed : files)   (* observed: final Files map, any order *)
| CAggT (runs : list trun) (obs_files : files) (obs_tests : tests).

Definition lines_eqb := list_eqb N.eqb.

Definition check (c : case) : bool :=
  match c with
  | CMerge a b out => lines_eqb (merge a b) out
  | CAgg runs obs =>
      let m := aggregate_all runs in
      Nat.eqb (length (keys m)) (length obs)
      && forallb (fun kv => lines_eqb (lookup (fst kv) m) (snd kv)
                            && existsb (str_eqb (fst kv)) (keys m)) obs
  | CAggT runs obsf obst =>
      let '(ts, m) := aggregate_all_t runs in
      Nat.eqb (length (keys m)) (length obsf)
      && forallb (fun kv => lines_eqb (lookup (fst kv) m) (snd kv)
                            && existsb (str_eqb (fst kv)) (keys m)) obsf
      && Nat.eqb (length ts) (length obst)
      && forallb (fun lt =>
           match tlookup (fst lt) ts with
           | None => false
           | Some fm => Nat.eqb (length fm) (length (snd lt))
                        && forallb (fun kv => lines_eqb (lookup (fst kv) fm) (snd kv)
                                              && existsb (str_eqb (fst kv)) (keys fm)) (snd lt)
           end) obst
  end.
