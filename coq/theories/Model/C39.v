(* C39 - configuration layering.  Executable model of src/core/config.go:
     defaultGlobalConfigFiles / defaultConfigFiles   (which files, in which order)
     ReadConfigFiles                                  (per file: the file, then file.<profile> for every profile;
                                                       missing files ignored; slice defaults afterwards; GoTool from GoRoot)
     gcfg's `set`                                     (scalar: overwrite; unnamed slice: append; blank: reset / true / error)
     ApplyOverrides / applyOverrideOnSectionField     (-o: scalar set, slice := strings.Split(value, ","))
   No proofs here. *)
From PlzV Require Import Base.Harness.

(* ---- options ------------------------------------------------------------------------------ *)
(* What gcfg does with an assignment depends on the Go type of the field only:
   - Multi:        unnamed slice type ([]string, []BuildLabel, []cli.URL): append; blank resets
   - Single SBool: bool:  blank ("name" with no '=') means true
   - Single SMap:  an entry of a map[string]string section (buildconfig, buildenv): blank stores ""
   - Single SStr:  everything else (string, cli.URL, int, cli.Duration, ...): blank is a fatal error.
   Values are the canonical text of the Go value (parsing of the value text by gcfg is not modelled). *)
Inductive skind := SStr | SBool | SMap.
Inductive opt := Single (k : skind) (name : str) | Multi (name : str).

Definition skind_eqb (a b : skind) : bool :=
  match a, b with SStr, SStr | SBool, SBool | SMap, SMap => true | _, _ => false end.

Definition opt_eqb (a b : opt) : bool :=
  match a, b with
  | Single k n, Single k' n' => skind_eqb k k' && str_eqb n n'
  | Multi n, Multi n' => str_eqb n n'
  | _, _ => false
  end.

Definition is_multi (o : opt) : bool := match o with Multi _ => true | _ => false end.

Inductive assignment :=
| Assign (o : opt) (v : str)      (* name = v   (v may be empty: "name =") *)
| Blank (o : opt).                (* name       (no '=' at all) *)

Definition a_opt (a : assignment) : opt := match a with Assign o _ => o | Blank o => o end.
Definition is_blank (a : assignment) : bool := match a with Blank _ => true | _ => false end.

Definition file := list assignment.

(* The file system as far as config reading sees it: the files that exist.  readConfigFileOnly
   ignores a file that does not exist (os.IsNotExist). *)
Definition fsys := list (str * file).

Fixpoint fs_open (fs : fsys) (name : str) : option file :=
  match fs with
  | [] => None
  | (n, f) :: r => if str_eqb name n then Some f else fs_open r name
  end.

(* ---- which files, in which order ------------------------------------------------------------ *)
(* strings.Split(x, string(c)) *)
Fixpoint split_on (c : N) (x : str) : list str :=
  match x with
  | [] => [[]]
  | b :: r =>
      let rest := split_on c r in
      if N.eqb b c then [] :: rest
      else match rest with h :: t => (b :: h) :: t | [] => [[b]] end
  end.

Definition is_abs (p : str) : bool := match p with 47%N :: _ => true | _ => false end.
Definition nonempty (x : str) : bool := match x with [] => false | _ => true end.

Record env := {
  e_xdg_dirs : str;     (* $XDG_CONFIG_DIRS, "" if unset *)
  e_home : str;         (* $HOME *)
  e_xdg_home : str;     (* $XDG_CONFIG_HOME, "" if unset *)
  e_root : str;         (* core.RepoRoot *)
  e_arch : str          (* OsArch, e.g. linux_amd64 *)
}.

(* filepath.Join(dir, name) for a clean dir (the harness only generates clean directories) *)
Definition join (dir name : str) : str := dir ++ s "/" ++ name.

Definition config_name : str := s "plzconfig".

(* fs.ExpandHomePath("~/.config/please/plzconfig") *)
Definition user_file (e : env) : str := e_home e ++ s "/.config/please/plzconfig".

Definition global_files (e : env) : list str :=
  [s "/etc/please/plzconfig"]
  ++ (if nonempty (e_xdg_dirs e)
      then map (fun p => join p config_name) (filter is_abs (split_on 58 (e_xdg_dirs e)))
      else [])
  ++ [user_file e]
  ++ (if nonempty (e_xdg_home e) && is_abs (e_xdg_home e) then [join (e_xdg_home e) config_name] else []).

Definition repo_files (e : env) : list str :=
  [join (e_root e) (s ".plzconfig");
   join (e_root e) (s ".plzconfig_" ++ e_arch e);
   join (e_root e) (s ".plzconfig.local")].

Definition default_files (e : env) : list str := global_files e ++ repo_files e.

(* for _, filename := range filenames { read(filename); for _, profile := range profiles { read(filename+"."+profile) } } *)
Definition profile_file (filename profile : str) : str := filename ++ s "." ++ profile.
Definition reads_for (profiles : list str) (filename : str) : list str :=
  filename :: map (profile_file filename) profiles.
Definition read_order (filenames profiles : list str) : list str :=
  flat_map (reads_for profiles) filenames.

(* the contents of the files that exist, in the order they are read *)
Definition sources (fs : fsys) (order : list str) : list file :=
  flat_map (fun n => match fs_open fs n with Some f => [f] | None => [] end) order.

(* ---- the configuration state ---------------------------------------------------------------- *)
(* One value per option: a single-valued option holds [v], a repeated one its elements. *)
Definition cfg := opt -> list str.

Definition upd (c : cfg) (o : opt) (v : list str) : cfg :=
  fun o' => if opt_eqb o' o then v else c o'.

(* gcfg set(): returns a fatal error for a blank on a field whose setter does not support it *)
Definition assign_ok (a : assignment) : bool :=
  match a with
  | Blank (Single SStr _) => false
  | _ => true
  end.

Definition apply_assign (c : cfg) (a : assignment) : cfg :=
  match a with
  | Assign (Single k n) v => upd c (Single k n) [v]
  | Assign (Multi n) v => upd c (Multi n) (c (Multi n) ++ [v])
  | Blank (Single SBool n) => upd c (Single SBool n) [s "true"]
  | Blank (Single SMap n) => upd c (Single SMap n) [[]]
  | Blank (Single SStr n) => c                              (* error, see assign_ok *)
  | Blank (Multi n) => upd c (Multi n) []
  end.

Definition apply_file (c : cfg) (f : file) : cfg := fold_left apply_assign f c.

(* ---- defaults -------------------------------------------------------------------------------- *)
Fixpoint assoc {A} (o : opt) (l : list (opt * A)) : option A :=
  match l with
  | [] => None
  | (k, v) :: r => if opt_eqb o k then Some v else assoc o r
  end.

Record schema := {
  init : list (opt * list str);    (* DefaultConfiguration(): values present before any file is read *)
  late : list (opt * list str);    (* setDefault(&field, ...) after all files: used when len(field) == 0 *)
  derive : option (opt * opt)      (* if config.Go.GoRoot != "" { config.Go.GoTool = Join(GoRoot, "bin", "go") } *)
}.

(* Go zero value: "" for a single-valued option, nil for a slice *)
Definition zero (o : opt) : list str := if is_multi o then [] else [[]].

Definition init_cfg (sch : schema) : cfg :=
  fun o => match assoc o (init sch) with Some v => v | None => zero o end.

Definition is_nil {A} (l : list A) : bool := match l with [] => true | _ => false end.

Definition apply_late (sch : schema) (c : cfg) : cfg :=
  fun o => match assoc o (late sch) with
           | Some d => if is_nil (c o) then d else c o
           | None => c o
           end.

Definition derived_value (v : list str) : list str :=
  match v with [r] => [r ++ s "/bin/go"] | _ => v end.

Definition apply_derive (sch : schema) (c : cfg) : cfg :=
  match derive sch with
  | Some (src, dst) =>
      match c src with
      | [[]] => c
      | v => upd c dst (derived_value v)
      end
  | None => c
  end.

(* ---- overrides (-o section.field:value) ------------------------------------------------------ *)
Definition override := (opt * str)%type.

Definition apply_override (c : cfg) (ov : override) : cfg :=
  match fst ov with
  | Single k n => upd c (Single k n) [snd ov]
  | Multi n => upd c (Multi n) (split_on 44 (snd ov))
  end.

(* ---- the whole pipeline ------------------------------------------------------------------------ *)
(* state after ReadConfigFiles (None = a fatal error was returned) *)
Definition read_config (sch : schema) (fs : fsys) (order : list str) : option cfg :=
  let srcs := sources fs order in
  if forallb (forallb assign_ok) srcs
  then Some (apply_derive sch (apply_late sch (fold_left apply_file srcs (init_cfg sch))))
  else None.

(* ReadConfigFiles(fs, filenames, profiles) then ApplyOverrides(ovs) *)
Definition effective (sch : schema) (fs : fsys) (filenames profiles : list str) (ovs : list override)
  : option cfg :=
  match read_config sch fs (read_order filenames profiles) with
  | Some c => Some (fold_left apply_override ovs c)
  | None => None
  end.

(* ---- the options the harness samples, with the defaults written in config.go -------------------- *)
Definition o_gotool := Single SStr (s "go.gotool").
Definition o_goroot := Single SStr (s "go.goroot").

Definition real_schema : schema := {|
  init := [ (Single SStr (s "build.config"), [s "opt"]);
            (Single SStr (s "build.nonce"), [s "1402"]);
            (Single SStr (s "please.downloadlocation"), [s "https://get.please.build"]);
            (Single SBool (s "build.xattrs"), [s "true"]);
            (Single SBool (s "parse.gitfunctions"), [s "true"]);
            (Single SBool (s "display.updatetitle"), [s "false"]);
            (Single SStr (s "please.numoldversions"), [s "10"]);
            (Single SStr (s "display.maxworkers"), [s "40"]);
            (Single SStr (s "build.timeout"), [s "10m0s"]);
            (o_gotool, [s "go"]);
            (Multi (s "java.defaultmavenrepo"), [s "https://repo1.maven.org/maven2"; s "https://jcenter.bintray.com/"]) ];
  late := [ (Multi (s "please.pluginrepo"),
               [s "https://github.com/{owner}/{plugin}/archive/{revision}.zip";
                s "https://github.com/{owner}/{plugin}-rules/archive/{revision}.zip"]);
            (Multi (s "parse.buildfilename"), [s "BUILD"; s "BUILD.plz"]);
            (Multi (s "build.path"), [s "/usr/local/bin"; s "/usr/bin"; s "/bin"]);
            (Multi (s "build.passenv"), []);
            (Multi (s "build.hashcheckers"), [s "sha1"; s "sha256"; s "blake3"]);
            (Multi (s "parse.builddefsdir"), [s "build_defs"]) ];
  derive := Some (o_goroot, o_gotool)
|}.

(* The options the harness reads back after every run, in its order; cases name them by index. *)
Definition sampled : list opt :=
  [ Single SStr (s "build.config"); Single SStr (s "build.nonce"); Single SStr (s "please.downloadlocation");
    Single SBool (s "build.xattrs"); Single SBool (s "parse.gitfunctions"); Single SBool (s "display.updatetitle");
    Single SStr (s "please.numoldversions"); Single SStr (s "display.maxworkers"); Single SStr (s "build.timeout");
    Single SMap (s "buildconfig.my-key"); Single SMap (s "buildenv.secret");
    o_goroot; o_gotool;
    Multi (s "parse.buildfilename"); Multi (s "parse.blacklistdirs"); Multi (s "parse.builddefsdir");
    Multi (s "build.path"); Multi (s "build.passenv"); Multi (s "build.hashcheckers"); Multi (s "please.pluginrepo");
    Multi (s "parse.preloadsubincludes"); Multi (s "java.defaultmavenrepo") ].

Definition O (i : nat) : opt := nth i sampled (Multi []).

(* ---- correspondence cases ------------------------------------------------------------------------ *)
Inductive files_arg :=
| Default (e : env)                (* ReadDefaultConfigFiles: defaultConfigFiles() under this environment *)
| Explicit (names : list str).     (* ReadConfigFiles(fs, names, profiles) *)

Definition filenames_of (a : files_arg) : list str :=
  match a with Default e => default_files e | Explicit l => l end.

Inductive case :=
| CRead (files : files_arg) (profiles : list str) (fs : fsys) (ovs : list override)
        (opens : list str)                            (* observed: names passed to fs.Open, in order *)
        (result : option (list (list str))).          (* observed: None = error, else the values of `sampled` *)

Definition vals_eqb := list_eqb str_eqb.

(* On an error the implementation stops opening files; the opens observed are then a prefix. *)
Fixpoint prefix_eqb (a b : list str) : bool :=
  match a, b with
  | [], _ => true
  | x :: a', y :: b' => str_eqb x y && prefix_eqb a' b'
  | _, _ => false
  end.

Definition check (c : case) : bool :=
  match c with
  | CRead files profiles fs ovs opens result =>
      let names := filenames_of files in
      match effective real_schema fs names profiles ovs, result with
      | Some m, Some obs =>
          list_eqb str_eqb (read_order names profiles) opens
          && list_eqb vals_eqb (map m sampled) obs
      | None, None => prefix_eqb opens (read_order names profiles)
      | _, _ => false
      end
  end.
