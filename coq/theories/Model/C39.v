(* C39 - configuration layering.  Executable model of src/core/config.go:
     defaultGlobalConfigFiles / defaultConfigFiles   (which files, in which order)
     ReadConfigFiles                                  (per file: the file, then file.<profile> for every profile;
                                                       missing files ignored; slice defaults afterwards; GoTool from GoRoot)
     gcfg's `set`                                     (scalar: overwrite; unnamed slice: append; blank: reset / true / error)
     ApplyOverrides / applyOverrideOnSectionField     (-o: scalar set, slice := strings.Split(value, ","))
     setBuildPath                                     (build.path: a COMPUTED default - $PATH of the caller when PATH is listed
                                                       in build.passenv / build.passunsafeenv, else DefaultPath - installed by
                                                       setDefault, i.e. only when the files leave build.path empty)
     if !config.Cpp.Coverage { append "cc" }          (test.disablecoverage gets an entry appended when cpp.coverage is false)
     readConfigFileOnly's fs.Open handling             (a file that does not exist is skipped; ANY other error of Open aborts
                                                       the whole read: an unopenable layer is never treated as absent)
     readConfigFile + normaliseAndMergePluginConfig   ([Plugin "x"] sections: every file is read into a fresh map, its keys
                                                       are lower-cased, then the previous layers' values are merged in for the
                                                       keys the new file does not set)
   No proofs here. *)
From PlzV Require Import Base.Harness.

(* ---- options ------------------------------------------------------------------------------ *)
(* What gcfg does with an assignment depends on the Go type of the field only:
   - Multi:        unnamed slice type ([]string, []BuildLabel, []cli.URL): append; blank resets
   - Single SBool: bool:  blank ("name" with no '=') means true
   - Single SMap:  an entry of a map[string]string section (buildconfig, buildenv): blank stores ""
   - Single SStr:  everything else (string, cli.URL, int, cli.Duration, ...): blank is a fatal error.
   Values are the canonical text of the Go value (parsing of the value text by gcfg is not modelled). *)
Inductive skind := SStr | SBool | SMap.
Inductive opt := Single (k : skind) (name : str) | Multi (name : str).

Definition skind_eqb (a b : skind) : bool :=
  match a, b with SStr, SStr | SBool, SBool | SMap, SMap => true | _, _ => false end.

Definition opt_eqb (a b : opt) : bool :=
  match a, b with
  | Single k n, Single k' n' => skind_eqb k k' && str_eqb n n'
  | Multi n, Multi n' => str_eqb n n'
  | _, _ => false
  end.

Definition is_multi (o : opt) : bool := match o with Multi _ => true | _ => false end.

Inductive assignment :=
| Assign (o : opt) (v : str)      (* name = v   (v may be empty: "name =") *)
| Blank (o : opt).                (* name       (no '=' at all) *)

Definition a_opt (a : assignment) : opt := match a with Assign o _ => o | Blank o => o end.
Definition is_blank (a : assignment) : bool := match a with Blank _ => true | _ => false end.

Definition file := list assignment.

(* The file system as far as config reading sees it: the files that exist.  readConfigFileOnly
   ignores a file that does not exist (os.IsNotExist). *)
Definition fsys := list (str * file).

Fixpoint fs_open (fs : fsys) (name : str) : option file :=
  match fs with
  | [] => None
  | (n, f) :: r => if str_eqb name n then Some f else fs_open r name
  end.

(* ---- which files, in which order ------------------------------------------------------------ *)
(* strings.Split(x, string(c)) *)
Fixpoint split_on (c : N) (x : str) : list str :=
  match x with
  | [] => [[]]
  | b :: r =>
      let rest := split_on c r in
      if N.eqb b c then [] :: rest
      else match rest with h :: t => (b :: h) :: t | [] => [[b]] end
  end.

Definition is_abs (p : str) : bool := match p with 47%N :: _ => true | _ => false end.
Definition nonempty (x : str) : bool := match x with [] => false | _ => true end.

Record env := {
  e_xdg_dirs : str;     (* $XDG_CONFIG_DIRS, "" if unset *)
  e_home : str;         (* $HOME *)
  e_xdg_home : str;     (* $XDG_CONFIG_HOME, "" if unset *)
  e_root : str;         (* core.RepoRoot *)
  e_arch : str          (* OsArch, e.g. linux_amd64 *)
}.

(* filepath.Join(dir, name) for a clean dir (the harness only generates clean directories) *)
Definition join (dir name : str) : str := dir ++ s "/" ++ name.

Definition config_name : str := s "plzconfig".

(* fs.ExpandHomePath("~/.config/please/plzconfig") *)
Definition user_file (e : env) : str := e_home e ++ s "/.config/please/plzconfig".

(* the locations in the order defaultGlobalConfigFiles appends them *)
Definition global_files_raw (e : env) : list str :=
  [s "/etc/please/plzconfig"]
  ++ (if nonempty (e_xdg_dirs e)
      then map (fun p => join p config_name) (filter is_abs (split_on 58 (e_xdg_dirs e)))
      else [])
  ++ [user_file e]
  ++ (if nonempty (e_xdg_home e) && is_abs (e_xdg_home e) then [join (e_xdg_home e) config_name] else []).

(* for i, f := range configFiles { if !slices.Contains(configFiles[i+1:], f) { deduped = append(deduped, f) } } :
   every name once, at its LAST (highest-priority) position *)
Fixpoint keep_last (l : list str) : list str :=
  match l with
  | [] => []
  | x :: r => if existsb (str_eqb x) r then keep_last r else x :: keep_last r
  end.

(* the same file can be named more than once (XDG_CONFIG_HOME=~/.config/please names the user config again): it is read once *)
Definition global_files (e : env) : list str := keep_last (global_files_raw e).

Definition repo_files (e : env) : list str :=
  [join (e_root e) (s ".plzconfig");
   join (e_root e) (s ".plzconfig_" ++ e_arch e);
   join (e_root e) (s ".plzconfig.local")].

Definition default_files (e : env) : list str := global_files e ++ repo_files e.

(* for _, filename := range filenames { read(filename); for _, profile := range profiles { read(filename+"."+profile) } } *)
Definition profile_file (filename profile : str) : str := filename ++ s "." ++ profile.
Definition reads_for (profiles : list str) (filename : str) : list str :=
  filename :: map (profile_file filename) profiles.
Definition read_order (filenames profiles : list str) : list str :=
  flat_map (reads_for profiles) filenames.

(* the contents of the files that exist, in the order they are read *)
Definition sources (fs : fsys) (order : list str) : list file :=
  flat_map (fun n => match fs_open fs n with Some f => [f] | None => [] end) order.

(* ---- the configuration state ---------------------------------------------------------------- *)
(* One value per option: a single-valued option holds [v], a repeated one its elements. *)
Definition cfg := opt -> list str.

Definition upd (c : cfg) (o : opt) (v : list str) : cfg :=
  fun o' => if opt_eqb o' o then v else c o'.

(* gcfg set(): returns a fatal error for a blank on a field whose setter does not support it *)
Definition assign_ok (a : assignment) : bool :=
  match a with
  | Blank (Single SStr _) => false
  | _ => true
  end.

Definition apply_assign (c : cfg) (a : assignment) : cfg :=
  match a with
  | Assign (Single k n) v => upd c (Single k n) [v]
  | Assign (Multi n) v => upd c (Multi n) (c (Multi n) ++ [v])
  | Blank (Single SBool n) => upd c (Single SBool n) [s "true"]
  | Blank (Single SMap n) => upd c (Single SMap n) [[]]
  | Blank (Single SStr n) => c                              (* error, see assign_ok *)
  | Blank (Multi n) => upd c (Multi n) []
  end.

Definition apply_file (c : cfg) (f : file) : cfg := fold_left apply_assign f c.

(* ---- defaults -------------------------------------------------------------------------------- *)
Fixpoint assoc {A} (o : opt) (l : list (opt * A)) : option A :=
  match l with
  | [] => None
  | (k, v) :: r => if opt_eqb o k then Some v else assoc o r
  end.

(* A computed default (setBuildPath): the value depends on what the files left in other (repeated) options and on
   the environment of the caller:
     pathVal := fallback
     for every (trigger option, element): if the element is in the option's list: pathVal = strings.Split(os.Getenv(var), sep)
     setDefault(&target, pathVal...) *)
Record cdefault := {
  cd_triggers : list (opt * str);  (* (build.passunsafeenv, "PATH"); (build.passenv, "PATH") *)
  cd_var : str;                    (* "PATH" *)
  cd_sep : N;                      (* ':' *)
  cd_fallback : list str           (* DefaultPath *)
}.

(* Everything besides the files and -o that determines a value: the default tables written in config.go and the
   environment of the caller as far as a computed default reads it. *)
Record schema := {
  init : list (opt * list str);    (* DefaultConfiguration(): values present before any file is read *)
  late : list (opt * list str);    (* setDefault(&field, ...) after all files: used when len(field) == 0 *)
  derive : option (opt * opt);     (* if config.Go.GoRoot != "" { config.Go.GoTool = Join(GoRoot, "bin", "go") } *)
  computed : list (opt * cdefault);(* setBuildPath(&field, triggers...) after all files: used when len(field) == 0 *)
  getenv : str -> str;             (* os.Getenv *)
  appended : option (opt * opt * str)  (* if !config.Cpp.Coverage { Test.DisableCoverage = append(Test.DisableCoverage, "cc") } *)
}.

(* Go zero value: "" for a single-valued option, nil for a slice *)
Definition zero (o : opt) : list str := if is_multi o then [] else [[]].

Definition init_cfg (sch : schema) : cfg :=
  fun o => match assoc o (init sch) with Some v => v | None => zero o end.

Definition is_nil {A} (l : list A) : bool := match l with [] => true | _ => false end.

Definition apply_late (sch : schema) (c : cfg) : cfg :=
  fun o => match assoc o (late sch) with
           | Some d => if is_nil (c o) then d else c o
           | None => c o
           end.

Definition mem (v : str) (l : list str) : bool := existsb (str_eqb v) l.

(* does some trigger option list its trigger element, in the state `look`? *)
Definition triggered (look : cfg) (cd : cdefault) : bool :=
  existsb (fun t => mem (snd t) (look (fst t))) (cd_triggers cd).

Definition computed_value (sch : schema) (look : cfg) (cd : cdefault) : list str :=
  if triggered look cd then split_on (cd_sep cd) (getenv sch (cd_var cd)) else cd_fallback cd.

(* setBuildPath reads the trigger options as the files left them (`look`; their own setDefault calls come later and
   install empty lists) and goes through setDefault: the target is only written when it is still empty. *)
Definition apply_computed (sch : schema) (look c : cfg) : cfg :=
  fun o => match assoc o (computed sch) with
           | Some cd => if is_nil (c o) then computed_value sch look cd else c o
           | None => c o
           end.

Definition derived_value (v : list str) : list str :=
  match v with [r] => [r ++ s "/bin/go"] | _ => v end.

Definition apply_derive (sch : schema) (c : cfg) : cfg :=
  match derive sch with
  | Some (src, dst) =>
      match c src with
      | [[]] => c
      | v => upd c dst (derived_value v)
      end
  | None => c
  end.

Definition is_false (v : list str) : bool :=
  match v with [x] => str_eqb x (s "false") | _ => false end.

Definition apply_append (sch : schema) (c : cfg) : cfg :=
  match appended sch with
  | Some (cond, dst, v) => if is_false (c cond) then upd c dst (c dst ++ [v]) else c
  | None => c
  end.

(* ---- overrides (-o section.field:value) ------------------------------------------------------ *)
Definition override := (opt * str)%type.

Definition apply_override (c : cfg) (ov : override) : cfg :=
  match fst ov with
  | Single k n => upd c (Single k n) [snd ov]
  | Multi n => upd c (Multi n) (split_on 44 (snd ov))
  end.

(* ---- the whole pipeline ------------------------------------------------------------------------ *)
(* state after ReadConfigFiles (None = a fatal error was returned) *)
Definition read_config (sch : schema) (fs : fsys) (order : list str) : option cfg :=
  let srcs := sources fs order in
  if forallb (forallb assign_ok) srcs
  then let raw := fold_left apply_file srcs (init_cfg sch) in
       Some (apply_append sch (apply_derive sch (apply_computed sch raw (apply_late sch raw))))
  else None.

(* ReadConfigFiles(fs, filenames, profiles) then ApplyOverrides(ovs) *)
Definition effective (sch : schema) (fs : fsys) (filenames profiles : list str) (ovs : list override)
  : option cfg :=
  match read_config sch fs (read_order filenames profiles) with
  | Some c => Some (fold_left apply_override ovs c)
  | None => None
  end.

(* ---- the options the harness samples, with the defaults written in config.go -------------------- *)
Definition o_gotool := Single SStr (s "go.gotool").
Definition o_goroot := Single SStr (s "go.goroot").

Definition o_path := Multi (s "build.path").
Definition o_passenv := Multi (s "build.passenv").
Definition o_passunsafeenv := Multi (s "build.passunsafeenv").
Definition o_cppcov := Single SBool (s "cpp.coverage").
Definition o_discov := Multi (s "test.disablecoverage").

(* path: the value of $PATH in the environment of the caller *)
Definition real_schema_at (path : str) : schema := {|
  init := [ (Single SStr (s "build.config"), [s "opt"]);
            (Single SStr (s "build.nonce"), [s "1402"]);
            (Single SStr (s "please.downloadlocation"), [s "https://get.please.build"]);
            (Single SBool (s "build.xattrs"), [s "true"]);
            (Single SBool (s "parse.gitfunctions"), [s "true"]);
            (Single SBool (s "display.updatetitle"), [s "false"]);
            (Single SStr (s "please.numoldversions"), [s "10"]);
            (Single SStr (s "display.maxworkers"), [s "40"]);
            (Single SStr (s "build.timeout"), [s "10m0s"]);
            (o_gotool, [s "go"]);
            (o_cppcov, [s "true"]);
            (Multi (s "java.defaultmavenrepo"), [s "https://repo1.maven.org/maven2"; s "https://jcenter.bintray.com/"]) ];
  late := [ (Multi (s "please.pluginrepo"),
               [s "https://github.com/{owner}/{plugin}/archive/{revision}.zip";
                s "https://github.com/{owner}/{plugin}-rules/archive/{revision}.zip"]);
            (Multi (s "parse.buildfilename"), [s "BUILD"; s "BUILD.plz"]);
            (o_passunsafeenv, []);
            (o_passenv, []);
            (Multi (s "build.hashcheckers"), [s "sha1"; s "sha256"; s "blake3"]);
            (Multi (s "parse.builddefsdir"), [s "build_defs"]) ];
  derive := Some (o_goroot, o_gotool);
  computed := [ (o_path, {| cd_triggers := [(o_passunsafeenv, s "PATH"); (o_passenv, s "PATH")];
                            cd_var := s "PATH"; cd_sep := 58;
                            cd_fallback := [s "/usr/local/bin"; s "/usr/bin"; s "/bin"] |}) ];
  getenv := fun v => if str_eqb v (s "PATH") then path else [];
  appended := Some (o_cppcov, o_discov, s "cc")
|}.

(* the schema used by the fixed witnesses and examples *)
Definition real_schema : schema := real_schema_at (s "/caller/bin:/usr/bin").

(* The options the harness reads back after every run, in its order; cases name them by index. *)
Definition sampled : list opt :=
  [ Single SStr (s "build.config"); Single SStr (s "build.nonce"); Single SStr (s "please.downloadlocation");
    Single SBool (s "build.xattrs"); Single SBool (s "parse.gitfunctions"); Single SBool (s "display.updatetitle");
    Single SStr (s "please.numoldversions"); Single SStr (s "display.maxworkers"); Single SStr (s "build.timeout");
    Single SMap (s "buildconfig.my-key"); Single SMap (s "buildenv.secret");
    o_goroot; o_gotool;
    Multi (s "parse.buildfilename"); Multi (s "parse.blacklistdirs"); Multi (s "parse.builddefsdir");
    Multi (s "build.path"); Multi (s "build.passenv"); Multi (s "build.hashcheckers"); Multi (s "please.pluginrepo");
    Multi (s "parse.preloadsubincludes"); Multi (s "java.defaultmavenrepo");
    o_passunsafeenv; o_cppcov; o_discov;
    Single SStr (s "please.version") ].

Definition O (i : nat) : opt := nth i sampled (Multi []).

(* ---- a layer that exists but cannot be opened ---------------------------------------------------- *)
(* readConfigFileOnly:  f, err := fs.Open(filename); if err != nil { if os.IsNotExist(err) { return nil }; return err }
   `faults` are the names whose Open fails with an error other than "does not exist" (EACCES, EIO, EMFILE, ELOOP, ENOTDIR...). *)
Inductive open_res := Absent | Opened (f : file) | OpenErr.

Definition fs_open_f (fs : fsys) (faults : list str) (name : str) : open_res :=
  if mem name faults then OpenErr
  else match fs_open fs name with Some f => Opened f | None => Absent end.

(* the read loop: the contents read so far (None once an Open failed), and the names passed to Open - it stops at the
   first failing Open *)
Fixpoint read_loop (fs : fsys) (faults : list str) (order : list str) : option (list file) * list str :=
  match order with
  | [] => (Some [], [])
  | n :: r =>
      match fs_open_f fs faults n with
      | OpenErr => (None, [n])
      | Absent => let x := read_loop fs faults r in (fst x, n :: snd x)
      | Opened f => let x := read_loop fs faults r in (option_map (cons f) (fst x), n :: snd x)
      end
  end.

(* what ReadConfigFiles makes of the contents read *)
Definition config_of (sch : schema) (srcs : list file) : option cfg :=
  if forallb (forallb assign_ok) srcs
  then let raw := fold_left apply_file srcs (init_cfg sch) in
       Some (apply_append sch (apply_derive sch (apply_computed sch raw (apply_late sch raw))))
  else None.

Definition effective_f (sch : schema) (fs : fsys) (faults : list str) (filenames profiles : list str)
           (ovs : list override) : option cfg :=
  match fst (read_loop fs faults (read_order filenames profiles)) with
  | Some srcs => match config_of sch srcs with
                 | Some c => Some (fold_left apply_override ovs c)
                 | None => None
                 end
  | None => None
  end.

(* ---- [Plugin "x"] sections ---------------------------------------------------------------------- *)
(* strings.ToLower on ASCII *)
Definition lower_c (c : N) : N := if (N.leb 65 c && N.leb c 90)%bool then (c + 32)%N else c.
Definition lower (x : str) : str := map lower_c x.

(* (plugin name, key) *)
Definition pkey := (str * str)%type.
Definition pkey_eqb (a b : pkey) : bool := str_eqb (fst a) (fst b) && str_eqb (snd a) (snd b).

(* one config file as far as plugins go: ((plugin, key AS WRITTEN), value), in file order *)
Definition pfile := list (pkey * str).

(* a Go map[string][]string per plugin, flattened: distinct keys *)
Definition pmap := list (pkey * list str).

(* gcfg (extra_values): one map entry per distinct key as written (case sensitive), its values in file order *)
Fixpoint dedup (l : list pkey) : list pkey :=
  match l with
  | [] => []
  | k :: r => k :: filter (fun k' => negb (pkey_eqb k' k)) (dedup r)
  end.

Definition exact_vals (k : pkey) (f : pfile) : list str :=
  flat_map (fun a => if pkey_eqb (fst a) k then [snd a] else []) f.

Definition parse_pfile (f : pfile) : pmap := map (fun k => (k, exact_vals k f)) (dedup (map fst f)).

(* the merged plugin configuration: lookup by (plugin, lower-case key) *)
Definition pcfg := pkey -> option (list str).
Definition pempty : pcfg := fun _ => None.
Definition pupd (c : pcfg) (k : pkey) (v : option (list str)) : pcfg := fun k' => if pkey_eqb k' k then v else c k'.

Definition lower_key (k : pkey) : pkey := (fst k, lower (snd k)).

(* for k, v := range plugin.ExtraValues { newExtraValues[strings.ToLower(k)] = v }   - in the iteration order given *)
Definition lower_keys (es : pmap) : pcfg :=
  fold_left (fun c e => pupd c (lower_key (fst e)) (Some (snd e))) es pempty.

(* for k, v := range plugin.ExtraValues { if _, ok := newPlugin.ExtraValues[k]; !ok { newPlugin.ExtraValues[k] = v } } *)
Definition merge_old (new old : pcfg) : pcfg :=
  fun k => match new k with Some v => Some v | None => old k end.

(* readConfigFile for one existing file.  `perm` is Go's map iteration order: an arbitrary permutation of the entries. *)
Definition read_layer (perm : pmap -> pmap) (old : pcfg) (f : pfile) : pcfg :=
  merge_old (lower_keys (perm (parse_pfile f))) old.

Definition read_plugins (perm : pmap -> pmap) (srcs : list pfile) : pcfg :=
  fold_left (read_layer perm) srcs pempty.

Definition pfsys := list (str * pfile).

Fixpoint pfs_open (fs : pfsys) (name : str) : option pfile :=
  match fs with
  | [] => None
  | (n, f) :: r => if str_eqb name n then Some f else pfs_open r name
  end.

Definition psources (fs : pfsys) (order : list str) : list pfile :=
  flat_map (fun n => match pfs_open fs n with Some f => [f] | None => [] end) order.

Definition plugin_effective (perm : pmap -> pmap) (fs : pfsys) (filenames profiles : list str) : pcfg :=
  read_plugins perm (psources fs (read_order filenames profiles)).

(* ---- correspondence cases ------------------------------------------------------------------------ *)
Inductive files_arg :=
| Default (e : env)                (* ReadDefaultConfigFiles: defaultConfigFiles() under this environment *)
| Explicit (names : list str).     (* ReadConfigFiles(fs, names, profiles) *)

Definition filenames_of (a : files_arg) : list str :=
  match a with Default e => default_files e | Explicit l => l end.

Inductive case :=
| CRead (path : str)                                  (* $PATH of the caller *)
        (files : files_arg) (profiles : list str) (fs : fsys) (ovs : list override)
        (opens : list str)                            (* observed: names passed to fs.Open, in order *)
        (result : option (list (list str)))           (* observed: None = error, else the values of `sampled` *)
| CFault (path : str) (files : files_arg) (profiles : list str) (fs : fsys)
         (faults : list str)                           (* names whose Open fails with an error other than not-exist *)
         (ovs : list override)
         (opens : list str) (result : option (list (list str)))
| CPlugin (files : files_arg) (profiles : list str) (fs : pfsys)
          (queries : list pkey)                        (* (plugin, lower-case key) *)
          (opens : list str)
          (results : list (option (list str))).        (* observed, the same on every one of the repeated reads *)

Definition vals_eqb := list_eqb str_eqb.

(* On an error the implementation stops opening files; the opens observed are then a prefix. *)
Fixpoint prefix_eqb (a b : list str) : bool :=
  match a, b with
  | [], _ => true
  | x :: a', y :: b' => str_eqb x y && prefix_eqb a' b'
  | _, _ => false
  end.

Definition check (c : case) : bool :=
  match c with
  | CRead path files profiles fs ovs opens result =>
      let names := filenames_of files in
      match effective (real_schema_at path) fs names profiles ovs, result with
      | Some m, Some obs =>
          list_eqb str_eqb (read_order names profiles) opens
          && list_eqb vals_eqb (map m sampled) obs
      | None, None => prefix_eqb opens (read_order names profiles)
      | _, _ => false
      end
  | CFault path files profiles fs faults ovs opens result =>
      let names := filenames_of files in
      match effective_f (real_schema_at path) fs faults names profiles ovs, result with
      | Some m, Some obs =>
          list_eqb str_eqb (read_order names profiles) opens
          && list_eqb vals_eqb (map m sampled) obs
      | None, None => prefix_eqb opens (snd (read_loop fs faults (read_order names profiles)))
      | _, _ => false
      end
  | CPlugin files profiles fs queries opens results =>
      let names := filenames_of files in
      list_eqb str_eqb (read_order names profiles) opens
      && list_eqb (option_eqb vals_eqb) (map (plugin_effective (fun m => m) fs names profiles) queries) results
  end.
