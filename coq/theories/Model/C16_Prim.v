(* C16/C17/C18 - primitive operations of the BUILD language model: strings, 64-bit integers, the heap of
   arrays / slices / dicts.  No proofs here.  `dialect` selects the semantics of the points where
   CPython differs from asp; everything else is shared. *)
From Coq Require Import String.
From PlzV Require Import Base.Harness Model.C16_Syntax Model.C16_Ops.
Local Open Scope Z_scope.

Inductive dialect := Asp | Py.
Definition is_py (d : dialect) : bool := match d with Py => true | Asp => false end.

(* ---------------------------------------------------------------- strings (byte lists) *)
Fixpoint str_concat (l : list str) : str := match l with [] => [] | x :: r => x ++ str_concat r end.

Fixpoint str_join (sep : str) (l : list str) : str :=
  match l with
  | [] => []
  | [x] => x
  | x :: r => x ++ sep ++ str_join sep r
  end.

Fixpoint str_prefix (p x : str) : bool :=
  match p, x with
  | [], _ => true
  | a :: p', b :: x' => N.eqb a b && str_prefix p' x'
  | _ :: _, [] => false
  end.

Fixpoint str_contains (needle x : str) : bool :=
  str_prefix needle x || match x with [] => false | _ :: r => str_contains needle r end.

Definition str_suffix (p x : str) : bool := str_prefix (rev p) (rev x).

(* strings.Split(x, sep) for a non-empty separator *)
Fixpoint str_split_go (fuel : nat) (sep x cur : str) : list str :=
  match fuel with
  | O => [rev cur ++ x]
  | S f =>
      match x with
      | [] => [rev cur]
      | c :: r => if str_prefix sep x then rev cur :: str_split_go f sep (skipn (length sep) x) []
                  else str_split_go f sep r (c :: cur)
      end
  end.
Definition str_split (sep x : str) : list str := str_split_go (S (length x)) sep x [].

Fixpoint str_repeat (n : nat) (x : str) : str := match n with O => [] | S k => x ++ str_repeat k x end.

(* number of runes of a valid UTF-8 string = number of bytes that are not continuation bytes *)
Definition is_cont (b : N) : bool := N.eqb (N.land b 192) 128.
Definition rune_count (x : str) : nat := length (filter (fun b => negb (is_cont b)) x).

(* the runes of a valid UTF-8 string, each as its own byte string *)
Fixpoint runes_go (x : str) (cur : str) : list str :=
  match x with
  | [] => match cur with [] => [] | _ => [rev cur] end
  | b :: r => if is_cont b then runes_go r (b :: cur)
              else match cur with [] => runes_go r [b] | _ => rev cur :: runes_go r [b] end
  end.
Definition runes (x : str) : list str := runes_go x [].

Definition digit (n : N) : N := (48 + n)%N.
Fixpoint pos_digits (fuel : nat) (n : N) (acc : str) : str :=
  match fuel with
  | O => acc
  | S f => if N.ltb n 10 then digit n :: acc else pos_digits f (N.div n 10) (digit (N.modulo n 10) :: acc)
  end.
Definition z_to_str (z : Z) : str :=
  if z <? 0 then 45%N :: pos_digits 80 (Z.to_N (- z)) [] else pos_digits 80 (Z.to_N z) [].

Definition is_ascii_plain (b : N) : bool :=   (* printable ASCII that repr() prints as itself inside '...' *)
  (N.leb 32 b && N.leb b 126 && negb (N.eqb b 39) && negb (N.eqb b 92)) || N.leb 128 b.

(* ---------------------------------------------------------------- integers *)
Definition two63 : Z := 9223372036854775808.
Definition two64 : Z := 18446744073709551616.
Definition two53 : Z := 9007199254740992.
Definition min_int : Z := - two63.
(* Go int arithmetic: the result modulo 2^64, read as a signed number *)
Definition wrap64 (z : Z) : Z := ((z + two63) mod two64) - two63.
Definition in_int64 (z : Z) : bool := (min_int <=? z) && (z <? two63).

Inductive ires := IOk (z : Z) | IBool (b : bool) | IErr | IUnsup | IFloat.

(* pyInt.Operator with an int operand (objects.go:213) *)
Definition asp_int_op (o : binop) (a b : Z) : ires :=
  match o with
  | Add => IOk (wrap64 (a + b))
  | Sub => IOk (wrap64 (a - b))
  | Mul => IOk (wrap64 (a * b))
  | Div => if b =? 0 then IErr else IOk (wrap64 (Z.quot a b))          (* Go /: truncates toward zero *)
  | Mod => if b =? 0 then IErr else IOk (Z.rem a b)                     (* Go %: sign of the dividend *)
  | FloorDiv =>                                                         (* int(math.Floor(float64(a) / float64(b))) *)
      if b =? 0 then IOk min_int                                        (* +-Inf / NaN converted to int on amd64 *)
      else if (Z.abs a <? two53) && (Z.abs b <? two53) then IOk (a / b) (* both conversions exact, quotient correctly rounded *)
      else IUnsup
  | Lt => IBool (a <? b) | Gt => IBool (a >? b) | Le => IBool (a <=? b) | Ge => IBool (a >=? b)
  | _ => IErr
  end.

(* CPython's int *)
Definition py_int_op (o : binop) (a b : Z) : ires :=
  match o with
  | Add => IOk (a + b)
  | Sub => IOk (a - b)
  | Mul => IOk (a * b)
  | Div => if b =? 0 then IErr else IFloat
  | Mod => if b =? 0 then IErr else IOk (a mod b)
  | FloorDiv => if b =? 0 then IErr else IOk (a / b)
  | Lt => IBool (a <? b) | Gt => IBool (a >? b) | Le => IBool (a <=? b) | Ge => IBool (a >=? b)
  | _ => IErr
  end.

Definition int_op (d : dialect) := match d with Asp => asp_int_op | Py => py_int_op end.

(* ---------------------------------------------------------------- state *)
Definition env := list (str * value).

Inductive fdefault := DNo | DConst (v : value) | DExpr (e : expr).
Record func := Func { f_name : str; f_args : list (str * fdefault); f_body : list stmt; f_scope : nat }.

Record state := State {
  arrays : list (list value);          (* backing arrays *)
  dicts : list (list (str * value));   (* Go maps, kept in insertion order (asp only ever observes them sorted) *)
  funcs : list func;
  fscopes : list env;                  (* one scope per interpreted file *)
  cur : nat;                           (* file scope of the running code (of the defining file inside a function) *)
  locals : list env;                   (* local scopes above it, innermost first *)
  consts : list value;                 (* optimised.Constant objects of the subincluded files *)
  subcache : list (str * env)          (* interpreter.subincludes: frozen globals per subincluded file *)
}.

Definition empty_state : state := State [] [] [] [] 0 [] [] [].

Definition set_arrays a st := State a (dicts st) (funcs st) (fscopes st) (cur st) (locals st) (consts st) (subcache st).
Definition set_dicts x st := State (arrays st) x (funcs st) (fscopes st) (cur st) (locals st) (consts st) (subcache st).
Definition set_funcs x st := State (arrays st) (dicts st) x (fscopes st) (cur st) (locals st) (consts st) (subcache st).
Definition set_fscopes x st := State (arrays st) (dicts st) (funcs st) x (cur st) (locals st) (consts st) (subcache st).
Definition set_cur x st := State (arrays st) (dicts st) (funcs st) (fscopes st) x (locals st) (consts st) (subcache st).
Definition set_locals x st := State (arrays st) (dicts st) (funcs st) (fscopes st) (cur st) x (consts st) (subcache st).
Definition set_consts x st := State (arrays st) (dicts st) (funcs st) (fscopes st) (cur st) (locals st) x (subcache st).
Definition set_subcache x st := State (arrays st) (dicts st) (funcs st) (fscopes st) (cur st) (locals st) (consts st) x.

Fixpoint env_get (n : str) (e : env) : option value :=
  match e with [] => None | (k, v) :: r => if str_eqb n k then Some v else env_get n r end.
Fixpoint env_set (n : str) (v : value) (e : env) : env :=
  match e with
  | [] => [(n, v)]
  | (k, w) :: r => if str_eqb n k then (k, v) :: r else (k, w) :: env_set n v r
  end.

Fixpoint list_set {A} (i : nat) (x : A) (l : list A) : list A :=
  match l, i with
  | [], _ => []
  | _ :: r, O => x :: r
  | y :: r, S k => y :: list_set k x r
  end.

Fixpoint envs_get (n : str) (l : list env) : option value :=
  match l with [] => None | e :: r => match env_get n e with Some v => Some v | None => envs_get n r end end.

Definition builtin_names : list str :=
  [s "len"; s "sorted"; s "reversed"; s "range"; s "enumerate"; s "zip"; s "any"; s "all"; s "min"; s "max";
   s "str"; s "bool"; s "int"; s "subinclude"; s "map"; s "filter"; s "reduce"; s "isinstance"].

(* scope.Lookup: the local scopes, the file scope, then the root scope with the builtins *)
Definition lookup (n : str) (st : state) : option value :=
  match envs_get n (locals st) with
  | Some v => Some v
  | None =>
      match env_get n (nth (cur st) (fscopes st) []) with
      | Some v => Some v
      | None => if existsb (str_eqb n) builtin_names then Some (VBuiltin n) else None
      end
  end.

(* scope.Set: always the innermost scope *)
Definition set_var (n : str) (v : value) (st : state) : state :=
  match locals st with
  | e :: r => set_locals (env_set n v e :: r) st
  | [] => set_fscopes (list_set (cur st) (env_set n v (nth (cur st) (fscopes st) [])) (fscopes st)) st
  end.

(* ---- arrays and slices ---- *)
Definition arr_of (st : state) (a : nat) : list value := nth a (arrays st) [].

(* the elements a list value denotes: asp - the window of the backing array; Python - the whole object *)
Definition list_items (d : dialect) (st : state) (sl : slice) : list value :=
  match d with
  | Asp => firstn (s_len sl) (skipn (s_off sl) (arr_of st (s_arr sl)))
  | Py => arr_of st (s_arr sl)
  end.
Definition list_len (d : dialect) (st : state) (sl : slice) : nat :=
  match d with Asp => s_len sl | Py => length (arr_of st (s_arr sl)) end.

(* make(pyList, len(items), cap): a new backing array *)
Definition alloc_list (items : list value) (cap : nat) (st : state) : slice * state :=
  let id := length (arrays st) in
  let cells := items ++ repeat VNone (cap - length items) in
  (Slice id 0 (length items) (Nat.max cap (length items)), set_arrays (arrays st ++ [cells]) st).

Fixpoint write_cells (off : nat) (xs : list value) (cells : list value) : list value :=
  match xs with
  | [] => cells
  | x :: r => write_cells (S off) r (list_set off x cells)
  end.

Definition arr_write (a off : nat) (xs : list value) (st : state) : state :=
  set_arrays (list_set a (write_cells off xs (arr_of st a)) (arrays st)) st.

(* pyList.Operator(Add): l.concat(l2) = append(append(make(pyList, 0, len(l)+len(l2)), l...), l2...) - always a new
   backing array whose capacity is its length (since /repo 7aeabfa; before, slices.Clip(append(l, l2...)) wrote into
   the spare capacity of l's array and returned l itself for an empty l2) *)
Definition list_add (d : dialect) (l : slice) (items2 : list value) (st : state) : slice * state :=
  match d with
  | Py => alloc_list (list_items Py st l ++ items2) 0 st
  | Asp => alloc_list (list_items Asp st l ++ items2) (s_len l + length items2) st
  end.

(* ---- dicts ---- *)
Definition dict_of (st : state) (i : nat) : list (str * value) := nth i (dicts st) [].
Definition alloc_dict (kvs : list (str * value)) (st : state) : nat * state :=
  (length (dicts st), set_dicts (dicts st ++ [kvs]) st).
Definition dict_store (i : nat) (k : str) (v : value) (st : state) : state :=
  set_dicts (list_set i (env_set k v (dict_of st i)) (dicts st)) st.

(* insertion sort of keys (pyDict.Keys sorts) *)
Fixpoint insert_kv (kv : str * value) (l : list (str * value)) : list (str * value) :=
  match l with
  | [] => [kv]
  | x :: r => if str_leb (fst kv) (fst x) then kv :: l else x :: insert_kv kv r
  end.
Definition sort_kvs (l : list (str * value)) : list (str * value) := fold_right insert_kv [] l.
(* the order in which a dict is enumerated: asp sorts, CPython keeps insertion order *)
Definition dict_enum (d : dialect) (kvs : list (str * value)) : list (str * value) :=
  match d with Asp => sort_kvs kvs | Py => kvs end.

(* ---- types ---- *)
Definition type_tag (v : value) : N :=
  match v with
  | VNone => 1 | VBool _ => 2 | VInt _ => 4 | VStr _ => 8
  | VList _ | VFrozenList _ | VNilList => 16
  | VDict _ | VFrozenDict _ => 32
  | VFunc _ | VBuiltin _ => 64
  | VRange _ _ _ => 0
  end%N.

(* IsTruthy *)
Definition truthy (d : dialect) (st : state) (v : value) : bool :=
  match v with
  | VInt z => negb (z =? 0)
  | VStr x => match x with [] => false | _ => true end
  | VBool b => b
  | VNone => false
  | VList sl | VFrozenList sl => negb (Nat.eqb (list_len d st sl) 0)
  | VNilList => false
  | VDict i | VFrozenDict i => match dict_of st i with [] => false | _ => true end
  | VRange a b c => match d with Asp => true | Py => if c >? 0 then a <? b else b <? a end
  | VFunc _ | VBuiltin _ => true
  end.

(* pyRange.Len() (objects.go, since /repo 3ce4752): the number of items Iter yields - none for an empty or descending
   range or a non-positive step, rounded up when the step does not divide the span; Go int arithmetic (the sum wraps
   around at 64 bits, / truncates).  Before 3ce4752 it was (Stop - Start) / Step: negative for a descending range
   (interpretList panicked in makeslice) and short when the step does not divide the span.  Proof/C16_Sort.v ties it
   to the body gotrans regenerates (Gen/C16Builtins.v). *)
Definition range_len (a b c : Z) : Z :=
  if (b <=? a) || (c <=? 0) then 0 else Z.quot (wrap64 (b - a + c - 1)) c.

(* the items of a range: asp `for i := Start; i < Stop; i += Step`; CPython also counts down *)
Fixpoint range_up (n : nat) (a c : Z) : list value :=
  match n with O => [] | S k => VInt a :: range_up k (a + c) c end.
Definition range_bound : Z := 4096.
Definition range_items (d : dialect) (a b c : Z) : res (list value) :=
  if c >? 0 then
    if a <? b then
      let n := (b - a + c - 1) / c in
      if n >? range_bound then Err EUnsupported else Ok (range_up (Z.to_nat n) a c)
    else Ok []
  else if c =? 0 then match d with Py => Err EType | Asp => Err EUnsupported (* never terminates *) end
  else match d with
       | Asp => if a <? b then Err EUnsupported (* counts down from a until it wraps around *) else Ok []
       | Py => if b <? a then
                 let n := (a - b + (- c) - 1) / (- c) in
                 if n >? range_bound then Err EUnsupported else Ok (range_up (Z.to_nat n) a c)
               else Ok []
       end.
