(* C27 - coverage aggregation, part 2: where the merged coverage lives and who merges into it.
     1. BuildState copies (ForSubrepo / ForArch): `*ret = *state` copies the Coverage struct, i.e. two map
        REFERENCES; every copy must keep feeding the one overall Files map;
     2. concurrently finishing runs: LogTestResult on any copy, serialised by the lock it holds;
     3. flaky retries (doFlakeRun): the coverage of a target is combined over its attempts.
   What the code does at each of these places is regenerated from the source (Gen/CoverageStates.v) and
   interpreted here.  No proofs here (Proof/C27_states.v). *)
From Coq Require Import String.
From PlzV Require Import Base.Harness Model.C27 Gen.CoverageStates.

(* A coverage object: TestCoverage{Tests, Files}.  Model.C27.aggregate_t is the case Tests = {label: Files}. *)
Definition covobj := (tests * files)%type.

Definition tset_all (ts : tests) (m : tests) : tests :=
  fold_left (fun m lt => tset (fst lt) (snd lt) m) ts m.

(* Aggregate on an object nobody else refers to *)
Definition agg_obj (acc c : covobj) : covobj := (tset_all (fst c) (fst acc), aggregate (snd acc) (snd c)).

(* ---- 1. BuildState copies ---- *)
(* A Go map is nil or a reference to a map on the heap; the heap is a list, a reference an index. *)
Definition ref := option nat.
Record cover := mkCover { c_tests : ref; c_files : ref }.           (* the Coverage field of one BuildState *)
Record world := mkWorld { w_states : list cover; w_tests : list tests; w_files : list files }.

Fixpoint upd {A} (i : nat) (x : A) (l : list A) : list A :=
  match l, i with
  | [], _ => []
  | _ :: r, O => x :: r
  | y :: r, S j => y :: upd j x r
  end.

(* NewBuildState: state 0, with the maps the source creates up front *)
Definition new_state (init_tests init_files : bool) : world :=
  mkWorld [mkCover (if init_tests then Some 0 else None) (if init_files then Some 0 else None)]
          (if init_tests then [[]] else []) (if init_files then [[]] else []).

Definition world0 : world := new_state newstate_init_tests newstate_init_files.

(* One statement of TestCoverage.Aggregate, run on the Coverage of state st.  None = the run-time panic
   of a write to a nil map (a read of a nil map is fine and yields nothing). *)
Definition exec_stmt (st : nat) (cv : covobj) (s : agg_stmt) (w : world) : option world :=
  match nth_error (w_states w) st with
  | None => None
  | Some c =>
    match s with
    | LazyMake fld =>
        if String.eqb fld "Tests" then
          match c_tests c with
          | Some _ => Some w
          | None => Some (mkWorld (upd st (mkCover (Some (length (w_tests w))) (c_files c)) (w_states w))
                                  (w_tests w ++ [[]]) (w_files w))
          end
        else if String.eqb fld "Files" then
          match c_files c with
          | Some _ => Some w
          | None => Some (mkWorld (upd st (mkCover (c_tests c) (Some (length (w_files w)))) (w_states w))
                                  (w_tests w) (w_files w ++ [[]]))
          end
        else None
    | AssignTests =>
        match c_tests c, fst cv with
        | Some a, ts => Some (mkWorld (w_states w) (upd a (tset_all ts (nth a (w_tests w) [])) (w_tests w)) (w_files w))
        | None, [] => Some w
        | None, _ :: _ => None
        end
    | MergeFiles =>
        match c_files c, snd cv with
        | Some a, fs => Some (mkWorld (w_states w) (w_tests w) (upd a (aggregate (nth a (w_files w) []) fs) (w_files w)))
        | None, [] => Some w
        | None, _ :: _ => None
        end
    | LockSelf _ | UnlockSelfDeferred _ => Some w      (* no effect on a sequential history; see part 2 *)
    end
  end.

Fixpoint exec (st : nat) (cv : covobj) (prog : list agg_stmt) (w : world) : option world :=
  match prog with
  | [] => Some w
  | s :: r => match exec_stmt st cv s w with Some w' => exec st cv r w' | None => None end
  end.

(* What happens to a build: a state is copied (ForSubrepo / ForArch), or a finished run is logged on a state. *)
Inductive event := ECopy (src : nat) | ELog (st : nat) (cv : covobj).

Definition step (w : world) (e : event) : option world :=
  match e with
  | ECopy src => match nth_error (w_states w) src with
                 | Some c => Some (mkWorld (w_states w ++ [c]) (w_tests w) (w_files w))
                 | None => None
                 end
  | ELog st cv => exec st cv aggregate_prog w
  end.

Fixpoint run (evs : list event) (w : world) : option world :=
  match evs with
  | [] => Some w
  | e :: r => match step w e with Some w' => run r w' | None => None end
  end.

(* what a state reports *)
Definition files_of (st : nat) (w : world) : files :=
  match nth_error (w_states w) st with
  | Some (mkCover _ (Some a)) => nth a (w_files w) []
  | _ => []
  end.
Definition tests_of (st : nat) (w : world) : tests :=
  match nth_error (w_states w) st with
  | Some (mkCover (Some a) _) => nth a (w_tests w) []
  | _ => []
  end.

(* the coverage objects logged by a history, in order, on whatever state *)
Fixpoint logged (evs : list event) : list covobj :=
  match evs with
  | [] => []
  | ECopy _ :: r => logged r
  | ELog _ cv :: r => cv :: logged r
  end.

(* ---- 2. runs finishing at the same time ---- *)
(* All copies share one Files map (part 1), so a concurrent history is a set of threads working on one map.
   An Aggregate is not atomic: per file it LOADS Files[f], merges, and STORES the result.  A thread may begin
   only when no thread it shares its lock with is under way. *)
Inductive scope := Shared | PerCopy | NoLock.

Definition is_lockself (s : agg_stmt) : bool := match s with LockSelf _ => true | _ => false end.

(* which runs the lock taken on the way to Aggregate keeps apart: a mutex reached through a pointer field of
   the BuildState is the same for all copies; one stored by value in the copied struct is one per copy *)
Definition lock_scope : scope :=
  match log_lock with
  | [] => if existsb is_lockself aggregate_prog then PerCopy else NoLock
  | _ => if log_lock_behind_pointer then Shared else PerCopy
  end.

Record thread := mkThread { t_st : nat; t_started : bool; t_reg : option (list cov); t_todo : files }.

Definition fresh_thread (st : nat) (r : files) : thread := mkThread st false None r.

Definition under_way (t : thread) : bool := t_started t && match t_todo t with [] => false | _ => true end.

Definition excludes (sc : scope) (a b : thread) : bool :=
  match sc with Shared => true | PerCopy => Nat.eqb (t_st a) (t_st b) | NoLock => false end.

(* is thread t kept out by one of the threads in l? *)
Definition blocked (sc : scope) (t : thread) (l : list thread) : bool :=
  existsb (fun u => under_way u && excludes sc t u) l.

(* one load or store of a thread *)
Definition micro (m : files) (t : thread) : option (files * thread) :=
  match t_todo t with
  | [] => None
  | (f, c) :: rest =>
      match t_reg t with
      | None => Some (m, mkThread (t_st t) true (Some (lookup f m)) (t_todo t))
      | Some v => Some (set f (merge v c) m, mkThread (t_st t) true None rest)
      end
  end.

(* thread i takes a step; None = i has nothing left to do or has to wait *)
Definition cstep (sc : scope) (i : nat) (m : files) (ths : list thread) : option (files * list thread) :=
  match nth_error ths i with
  | None => None
  | Some t =>
      if negb (t_started t) && blocked sc t ths then None
      else match micro m t with
           | Some (m', t') => Some (m', upd i t' ths)
           | None => None
           end
  end.

Fixpoint crun (sc : scope) (sched : list nat) (m : files) (ths : list thread) : option (files * list thread) :=
  match sched with
  | [] => Some (m, ths)
  | i :: r => match cstep sc i m ths with Some (m', ths') => crun sc r m' ths' | None => None end
  end.

Definition all_done (ths : list thread) : bool := forallb (fun t => match t_todo t with [] => true | _ => false end) ths.

(* ---- 3. flaky retries ---- *)
(* An attempt = did it pass, and the coverage object parsed from what it wrote.  doFlakeRun executes attempts
   1..Flakiness and stops after the first one that passes. *)
Fixpoint executed (flakiness : nat) (atts : list (bool * covobj)) : list covobj :=
  match flakiness, atts with
  | S n, (ok, c) :: r => c :: (if ok && flake_break_on_success then [] else executed n r)
  | _, _ => []
  end.

(* coverage := &TestCoverage{}; per attempt: coverage.Aggregate(cov), or whatever the source does instead *)
Definition combine_with (k : flake_comb) (acc c : covobj) : covobj :=
  match k with CombAggregate => agg_obj acc c | CombAssign => c end.

Definition flake_run (k : flake_comb) (flakiness : nat) (atts : list (bool * covobj)) : covobj :=
  fold_left (combine_with k) (executed flakiness atts) ([], []).

(* ---- correspondence cases ---- *)
Inductive case :=
| CBase (c : C27.case)
  (* a history on real BuildStates; observed: Tests and Files of every state at the end, state 0 first *)
| CStates (evs : list event) (obs : list covobj)
  (* test.Test on a target with the given flakiness whose attempts behave as listed, the target being in a
     subrepo (its state copied from the root before the test) or not; observed: the ROOT state afterwards *)
| CFlake (in_subrepo : bool) (flakiness : nat) (atts : list (bool * covobj)) (obs : covobj).

Definition files_same (m obs : files) : bool :=
  Nat.eqb (length (keys m)) (length obs)
  && forallb (fun kv => lines_eqb (lookup (fst kv) m) (snd kv) && existsb (str_eqb (fst kv)) (keys m)) obs.

Definition tests_same (ts obs : tests) : bool :=
  Nat.eqb (length ts) (length obs)
  && forallb (fun lt => match tlookup (fst lt) ts with
                        | None => false
                        | Some fm => files_same fm (snd lt)
                        end) obs.

Definition obj_same (st : nat) (w : world) (o : covobj) : bool :=
  tests_same (tests_of st w) (fst o) && files_same (files_of st w) (snd o).

Definition check (c : case) : bool :=
  match c with
  | CBase b => C27.check b
  | CStates evs obs =>
      match run evs world0 with
      | None => false
      | Some w => Nat.eqb (length (w_states w)) (length obs)
                  && forallb (fun io => obj_same (fst io) w (snd io)) (combine (seq 0 (length obs)) obs)
      end
  | CFlake sub n atts obs =>
      let cv := flake_run flake_combine n atts in
      match run (if sub then [ECopy 0; ELog 1 cv] else [ELog 0 cv]) world0 with
      | None => false
      | Some w => obj_same 0 w obs
      end
  end.
