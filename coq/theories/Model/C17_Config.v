(* C17, follow-up 2 - the CONFIG object across packages of one interpreter.  No proofs here.

   Modelled (src/parse/asp): pyConfig = base + overlay (objects.go Get / IndexAssign / Copy / Freeze / Merge), the end of
   interpreter.Subinclude (the frozen CONFIG is exported iff the file's scope has an overlay; the result is cached per
   interpreter), the CONFIG case of scope.SetAll (Merge into the including package's config), rules/builtins.build_defs
   setdefault (`if key in self: return self[key]; self[key] = default`), the package() builtin (builtins.go pkg) with a
   scalar and with a one-entry dict argument, and a write through a dict-valued entry (x = CONFIG.K; x[NK] = v).

   Two pieces are not written by hand but INTERPRETED from definitions generated from the Go source (Gen/C17Config.v,
   gotrans target C17Config): the nil branch of pyConfig.Merge (c17_merge_nil_branch) and the statements of the dict
   branch of pkg() (c17_pkg_dict_steps).

   Identity of Go maps.  What matters for the property is WHICH map a write goes to:
     - the overlay map of a subincluded file d (created while d is interpreted, exported through the frozen CONFIG that the
       interpreter caches) is named by d: g_ovs;
     - the dict created by the i-th top-level statement of file d (a dict literal handed to CONFIG.setdefault / CONFIG[..] =)
       is named (d, i); its contents are those of the literal unless some package has written to it: g_dicts records the
       dicts that were written to (copy-on-write representation of the heap; the literal itself is program text);
     - the overlay map of a package and the dicts a package creates itself (a literal it assigns, the Copy() of package())
       are referenced from that package's config only, and are kept by value in the package's own state (pov): POwn / COwn.
       A package whose config ALIASES the exported map of file d (only possible if Merge adopts the incoming map) is PAdopted d:
       its reads and writes go to g_ovs. *)
From PlzV Require Import Base.Harness Model.C16_Syntax Model.C16_Eval Model.C16.
From PlzV Require Import Gen.C17Config.

Definition sdict := list (str * str).               (* a plugin-style dict: key -> string *)
Definition dref := (str * nat)%type.                (* the dict made by statement i of build_defs file d *)
Inductive cval := CStr (v : str) | CRef (r : dref) | COwn (d : sdict).
Definition omap := list (str * cval).               (* an overlay map *)

Section Assoc.
  Context {A : Type}.
  Fixpoint aget (k : str) (m : list (str * A)) : option A :=
    match m with
    | [] => None
    | (k', v) :: r => if str_eqb k k' then Some v else aget k r
    end.
  Fixpoint aset (k : str) (v : A) (m : list (str * A)) : list (str * A) :=
    match m with
    | [] => [(k, v)]
    | (k', v') :: r => if str_eqb k k' then (k, v) :: r else (k', v') :: aset k v r
    end.
End Assoc.

Definition dref_eqb (a b : dref) : bool := str_eqb (fst a) (fst b) && Nat.eqb (snd a) (snd b).
Fixpoint dget (r : dref) (m : list (dref * sdict)) : option sdict :=
  match m with
  | [] => None
  | (r', v) :: t => if dref_eqb r r' then Some v else dget r t
  end.
Fixpoint dset (r : dref) (v : sdict) (m : list (dref * sdict)) : list (dref * sdict) :=
  match m with
  | [] => [(r, v)]
  | (r', v') :: t => if dref_eqb r r' then (r, v) :: t else (r', v') :: dset r v t
  end.

(* ---------------------------------------------------------------- programs *)
Inductive lit := LStr (v : str) | LDict (d : sdict).
Inductive dop :=                                   (* top-level statements of a build_defs file *)
| DSetDefault (k : str) (l : lit)                  (* CONFIG.setdefault("K", lit) *)
| DAssign (k : str) (l : lit).                     (* CONFIG["K"] = lit *)
Inductive pop :=                                   (* statements of a package (BUILD file) *)
| PSub (d : str)                                   (* subinclude("d") *)
| PAssign (k : str) (l : lit)                      (* CONFIG["K"] = lit *)
| PSetDefault (k : str) (l : lit)                  (* CONFIG.setdefault("K", lit) *)
| PPkgScalar (k : str) (v : str)                   (* package(k = "v") *)
| PPkgDict (k nk : str) (v : str)                  (* package(k = {"nk": "v"}) *)
| PNested (k nk : str) (v : str).                  (* x = CONFIG.K ; x["NK"] = v *)

Definition defs_table := list (str * list dop).

(* ---------------------------------------------------------------- state *)
(* the interpreter: the subinclude cache (file -> the overlay its frozen CONFIG carries; None = nil overlay, no CONFIG
   exported) and the exported dicts that have been written to *)
Record gstate := GSt { g_ovs : list (str * option omap); g_dicts : list (dref * sdict) }.
(* the overlay of one package's own pyConfig *)
Inductive pov := PNil | POwn (m : omap) | PAdopted (d : str).

Definition g0 : gstate := GSt [] [].

Definition lit_at (defs : defs_table) (r : dref) : sdict :=
  match aget (fst r) defs with
  | Some ops => match nth_error ops (snd r) with
                | Some (DSetDefault _ (LDict x)) | Some (DAssign _ (LDict x)) => x
                | _ => []
                end
  | None => []
  end.

Definition dict_content (defs : defs_table) (g : gstate) (r : dref) : sdict :=
  match dget r (g_dicts g) with Some x => x | None => lit_at defs r end.

Definition base_get (base : list (str * str)) (k : str) : option cval :=
  match aget k base with Some v => Some (CStr v) | None => None end.

(* ---------------------------------------------------------------- a build_defs file *)
(* pyConfig.Get on the file's own config (s.config = root.Copy(): overlay nil at the start) *)
Definition own_get (base : list (str * str)) (k : str) (o : option omap) : option cval :=
  match o with
  | Some m => match aget k m with Some v => Some v | None => base_get base k end
  | None => base_get base k
  end.

Definition own_assign (k : str) (v : cval) (o : option omap) : option omap :=
  Some (aset k v (match o with Some m => m | None => [] end)).

Fixpoint load_ov (base : list (str * str)) (d : str) (i : nat) (ops : list dop) (o : option omap) : option omap :=
  match ops with
  | [] => o
  | op :: r =>
      let val := fun l => match l with LStr x => CStr x | LDict _ => CRef (d, i) end in
      let o1 := match op with
                | DAssign k l => own_assign k (val l) o
                | DSetDefault k l => match own_get base k o with Some _ => o | None => own_assign k (val l) o end
                end in
      load_ov base d (S i) r o1
  end.

(* ---------------------------------------------------------------- a package's config *)
Definition ov_lookup (g : gstate) (p : pov) (k : str) : option cval :=
  match p with
  | PNil => None
  | POwn m => aget k m
  | PAdopted d => match aget d (g_ovs g) with Some (Some m) => aget k m | _ => None end
  end.

(* pyConfig.Get *)
Definition cfg_get (base : list (str * str)) (g : gstate) (p : pov) (k : str) : option cval :=
  match ov_lookup g p k with Some v => Some v | None => base_get base k end.

(* pyConfig.IndexAssign *)
Definition cfg_assign (g : gstate) (p : pov) (k : str) (v : cval) : gstate * pov :=
  match p with
  | PNil => (g, POwn [(k, v)])
  | POwn m => (g, POwn (aset k v m))
  | PAdopted d =>
      let m := match aget d (g_ovs g) with Some (Some m) => m | _ => [] end in
      (GSt (aset d (Some (aset k v m)) (g_ovs g)) (g_dicts g), PAdopted d)
  end.

(* pyConfig.Merge(other), other = the frozen CONFIG exported by file d with overlay m: the generated nil branch, then the
   entry-by-entry copy.  None = a Go panic (assignment to an entry of a nil map). *)
Fixpoint merge_nil (steps : list c17_mstep) (d : str) (p : pov) : pov * bool (* returned *) :=
  match steps with
  | [] => (p, false)
  | C17MMake :: r => merge_nil r d (POwn [])
  | C17MAdopt :: r => merge_nil r d (PAdopted d)
  | C17MReturn :: _ => (p, true)
  end.

Definition cfg_merge (g : gstate) (p : pov) (d : str) (m : omap) : gstate * option pov :=
  let '(p1, returned) := match p with PNil => merge_nil c17_merge_nil_branch d p | _ => (p, false) end in
  if returned then (g, Some p1)
  else match p1, m with
       | PNil, _ :: _ => (g, None)
       | _, _ => let '(g2, p2) := fold_left (fun acc kv => cfg_assign (fst acc) (snd acc) (fst kv) (snd kv)) m (g, p1) in (g2, Some p2)
       end.

(* the dict branch of pkg(): pluginConfig = the dict found under K (old), overrides = {nk: v} *)
Definition old_content (defs : defs_table) (g : gstate) (old : cval) : sdict :=
  match old with CRef r => dict_content defs g r | COwn x => x | CStr _ => [] end.

(* IndexAssign into the dict `old` itself: a shared dict lives in the interpreter, an own one in the package's overlay under K *)
Definition write_old (defs : defs_table) (g : gstate) (p : pov) (k : str) (old : cval) (nk v : str) : gstate * pov * cval :=
  match old with
  | CRef r => (GSt (g_ovs g) (dset r (aset nk v (dict_content defs g r)) (g_dicts g)), p, old)
  | COwn x => let new := COwn (aset nk v x) in
              match p with
              | POwn m => (g, POwn (aset k new m), new)
              | _ => let '(g1, p1) := cfg_assign g p k new in (g1, p1, new)
              end
  | CStr _ => (g, p, old)
  end.

Fixpoint pkg_steps (defs : defs_table) (steps : list c17_pstep) (k nk v : str)
         (g : gstate) (p : pov) (old : cval) (new : sdict) (vset : option cval) : gstate * option (pov * option cval) :=
  match steps with
  | [] => (g, Some (p, vset))
  | C17PCopy :: r => pkg_steps defs r k nk v g p old (old_content defs g old) vset
  | C17PLoop chk wr :: r =>
      let c := match chk with C17POld => old_content defs g old | C17PNew => new end in
      match aget nk c with
      | None => (g, None)                                               (* s.Error: not a known config value *)
      | Some _ =>
          match wr with
          | C17PNew => pkg_steps defs r k nk v g p old (aset nk v new) vset
          | C17POld => let '(g1, p1, old1) := write_old defs g p k old nk v in pkg_steps defs r k nk v g1 p1 old1 new vset
          end
      end
  | C17PSetV x :: r =>
      pkg_steps defs r k nk v g p old new (Some (match x with C17POld => old | C17PNew => COwn new end))
  end.

(* a literal evaluated by a package: a dict literal is a new dict of the package's own *)
Definition pval (l : lit) : cval := match l with LStr x => CStr x | LDict x => COwn x end.

(* one statement of a package; None = the package raised (what it did to the interpreter before stays) *)
Definition step (defs : defs_table) (base : list (str * str)) (op : pop) (g : gstate) (p : pov) : gstate * option pov :=
  match op with
  | PSub d =>
      match aget d defs with
      | None => (g, None)
      | Some ops =>
          (* interpreter.Subinclude: cached per interpreter *)
          let '(g1, exported) := match aget d (g_ovs g) with
                                 | Some o => (g, o)
                                 | None => let o := load_ov base d 0 ops None in (GSt (g_ovs g ++ [(d, o)]) (g_dicts g), o)
                                 end in
          match exported with
          | None => (g1, Some p)                         (* delete(locals, "CONFIG") *)
          | Some m => cfg_merge g1 p d m                 (* scope.SetAll: s.config.Merge(c) *)
          end
      end
  | PAssign k l => let '(g1, p1) := cfg_assign g p k (pval l) in (g1, Some p1)
  | PSetDefault k l =>
      match cfg_get base g p k with
      | Some _ => (g, Some p)
      | None => let '(g1, p1) := cfg_assign g p k (pval l) in (g1, Some p1)
      end
  | PPkgScalar k v =>
      match cfg_get base g p k with
      | None => (g, None)                                (* not a known config value *)
      | Some _ => let '(g1, p1) := cfg_assign g p k (CStr v) in (g1, Some p1)
      end
  | PPkgDict k nk v =>
      match cfg_get base g p k with
      | None => (g, None)
      | Some (CStr _) => (g, None)                       (* can't assign a dict to K as it's not a dict *)
      | Some old =>
          match pkg_steps defs c17_pkg_dict_steps k nk v g p old [] None with
          | (g1, None) => (g1, None)
          | (g1, Some (p1, vset)) =>
              (* v stays the overrides dict {nk: v} if no statement reassigns it *)
              let val := match vset with Some x => x | None => COwn [(nk, v)] end in
              let '(g2, p2) := cfg_assign g1 p1 k val in (g2, Some p2)
          end
      end
  | PNested k nk v =>
      match cfg_get base g p k with
      | None | Some (CStr _) => (g, None)
      | Some old => let '(g1, p1, _) := write_old defs g p k old nk v in (g1, Some p1)
      end
  end.

Fixpoint run_ops (defs : defs_table) (base : list (str * str)) (ops : list pop) (g : gstate) (p : pov) : gstate * option pov :=
  match ops with
  | [] => (g, Some p)
  | op :: r => match step defs base op g p with
               | (g1, Some p1) => run_ops defs base r g1 p1
               | (g1, None) => (g1, None)
               end
  end.

(* ---------------------------------------------------------------- observation *)
Inductive rv := RVNone | RVStr (v : str) | RVDict (entries : list (option str)).

Definition render_val (defs : defs_table) (nkeys : list str) (g : gstate) (v : option cval) : rv :=
  match v with
  | None => RVNone
  | Some (CStr x) => RVStr x
  | Some c => let d := old_content defs g c in RVDict (map (fun nk => aget nk d) nkeys)
  end.

(* the package's CONFIG as it reads it: s.config.Get(k) for every key of interest *)
Definition render (defs : defs_table) (base : list (str * str)) (keys nkeys : list str) (g : gstate) (p : pov) : list rv :=
  map (fun k => render_val defs nkeys g (cfg_get base g p k)) keys.

(* packages one after the other on one interpreter: for each, its config when it finished (None = raised) *)
Fixpoint run_pkgs (defs : defs_table) (base : list (str * str)) (keys nkeys : list str) (pkgs : list (list pop)) (g : gstate)
  : gstate * list (option (pov * list rv)) :=
  match pkgs with
  | [] => (g, [])
  | ops :: r =>
      let '(g1, res) := run_ops defs base ops g PNil in
      let here := match res with Some p => Some (p, render defs base keys nkeys g1 p) | None => None end in
      let '(g2, rest) := run_pkgs defs base keys nkeys r g1 in
      (g2, here :: rest)
  end.

Inductive cout := COErr | COOk (after final : list rv).

Definition scenario (defs : defs_table) (base : list (str * str)) (keys nkeys : list str) (pkgs : list (list pop)) : list cout :=
  let '(gend, res) := run_pkgs defs base keys nkeys pkgs g0 in
  map (fun r => match r with
                | None => COErr
                | Some (p, after) => COOk after (render defs base keys nkeys gend p)
                end) res.

Definition rv_eqb (a b : rv) : bool :=
  match a, b with
  | RVNone, RVNone => true
  | RVStr x, RVStr y => str_eqb x y
  | RVDict x, RVDict y => list_eqb (option_eqb str_eqb) x y
  | _, _ => false
  end.

Definition cout_eqb (a b : cout) : bool :=
  match a, b with
  | COErr, COErr => true
  | COOk a1 f1, COOk a2 f2 => list_eqb rv_eqb a1 a2 && list_eqb rv_eqb f1 f2
  | _, _ => false
  end.

(* ---------------------------------------------------------------- correspondence cases of C17 *)
Inductive case :=
| CBase (c : C16.case)                             (* interpreter runs: the case type of C16 *)
| CCfg (base : list (str * str)) (defs : defs_table) (keys nkeys : list str) (pkgs : list (list pop)) (observed : list cout).
    (* real asp: the packages interpreted in order on one parser; observed = each package's CONFIG over `keys`
       (dict values over `nkeys`) when it finished and after all of them ran *)

Definition check (c : case) : bool :=
  match c with
  | CBase c0 => C16.check c0
  | CCfg base defs keys nkeys pkgs obs => list_eqb cout_eqb (scenario defs base keys nkeys pkgs) obs
  end.
