(* C22 - `//dir/...` expansion.  Executable model of plz.FindAllBuildFiles (src/plz/plz.go), of the
   fs.Walk / godirwalk.Walk traversal it runs on (src/fs/walk.go; sorted children, filepath.SkipDir
   semantics), of the file-name -> package conversion in findOriginalTask, of findOriginalTaskSet (several
   labels on one command line), and of query.isExcluded / query.containsPackage (src/query/completions.go:
   the breadth-first search behind the completion of `//dir/`).  The literals come from Gen/FindBuildFiles.v, regenerated from the source
   on every run.  No proofs here. *)
From Coq Require Import String.
From PlzV Require Import Base.Harness.
From PlzV Require Gen.FindBuildFiles.

(* ---------------------------------------------------------------- strings / paths *)

Definition slash : N := 47.

Fixpoint has_prefix (a p : str) : bool :=          (* strings.HasPrefix(a, p) *)
  match p, a with
  | [], _ => true
  | _ :: _, [] => false
  | y :: p', x :: a' => N.eqb x y && has_prefix a' p'
  end.

Definition mem_str (x : str) (l : list str) : bool := existsb (str_eqb x) l.   (* cli.ContainsString *)

Fixpoint drop_while (f : N -> bool) (l : str) : str :=
  match l with
  | [] => []
  | x :: r => if f x then drop_while f r else l
  end.

Fixpoint take_while (f : N -> bool) (l : str) : str :=
  match l with
  | [] => []
  | x :: r => if f x then x :: take_while f r else []
  end.

Definition is_slash (c : N) : bool := N.eqb c slash.
Definition not_slash (c : N) : bool := negb (is_slash c).

(* filepath.Base: "" -> "."; strip trailing slashes; keep what follows the last slash; "" -> "/" *)
Definition base (p : str) : str :=
  match p with
  | [] => s "."
  | _ => match rev (take_while not_slash (drop_while is_slash (rev p))) with
         | [] => s "/"
         | b => b
         end
  end.

(* filepath.Join(dir, name) for a clean relative dir and a plain entry name: Clean(dir + "/" + name);
   the only cleaning that can apply is "./name" -> "name". *)
Definition join (dir name : str) : str :=
  if str_eqb dir (s ".") then name else dir ++ slash :: name.

(* dirname, _ := filepath.Split(filename): everything up to and including the last slash *)
Definition split_dir (p : str) : str := rev (drop_while not_slash (rev p)).

Definition in_cutset (cut : str) (c : N) : bool := existsb (N.eqb c) cut.
Definition trim_left (cut p : str) : str := drop_while (in_cutset cut) p.
Definition trim_right (cut p : str) : str := rev (drop_while (in_cutset cut) (rev p)).

Fixpoint drop_prefix (a p : str) : str :=            (* a[len(p):] *)
  match p, a with
  | _ :: p', _ :: a' => drop_prefix a' p'
  | _, _ => a
  end.
Definition trim_prefix (a p : str) : str := if has_prefix a p then drop_prefix a p else a.

(* ---------------------------------------------------------------- configuration *)

Record config := Config {
  build_file_names : list str;     (* [parse] buildfilename *)
  blacklist : list str;            (* [parse] blacklistdirs *)
  experimental : list str          (* [parse] experimentaldir *)
}.

Definition out_dir : str := s FindBuildFiles.out_dir.
Definition is_build_file (cfg : config) (name : str) : bool := mem_str name (build_file_names cfg).

(* for _, dir := range BlacklistDirs { if dir == basename || name == dir || HasPrefix(name, dir+"/") } *)
Definition blacklisted (cfg : config) (name basename : str) : bool :=
  existsb (fun dir => str_eqb dir basename || str_eqb name dir
                      || has_prefix name (dir ++ s FindBuildFiles.blacklist_separator)) (blacklist cfg).

(* The walk callback.  Result: (the name is sent on the channel, filepath.SkipDir is returned). *)
Definition callback (cfg : config) (prefix name : str) (isDir : bool) : bool * bool :=
  let basename := base name in
  if negb isDir
  then (is_build_file cfg basename, false)      (* only directories are ever skipped *)
  else
  if str_eqb basename out_dir
     || (isDir && has_prefix basename (s FindBuildFiles.hidden_prefix)
               && negb (str_eqb name (s FindBuildFiles.root_exception)))
  then (false, true)
  else if isDir && negb (has_prefix name prefix) && negb (has_prefix prefix name)
  then (false, true)
  else if is_build_file cfg basename && negb isDir
  then (true, blacklisted cfg name basename)
  else if mem_str name (experimental cfg)
  then (false, true)
  else (false, blacklisted cfg name basename).

(* ---------------------------------------------------------------- the tree *)

(* A non-directory is either something whose IsDirOrSymlinkToDir() is false (regular file, symlink to a
   file, ...) or a symlink to a directory.  Neither is descended into (FollowSymbolicLinks is off). *)
Inductive fkind := FReg | FLinkDir.
Inductive node :=
| File (k : fkind)
| Dir (children : list (str * node)).      (* in any order; godirwalk sorts them by name *)

(* insertion sort by name (godirwalk: sort.Sort(deChildren), Less = name < name) *)
Section Sort.
  Context {A : Type}.
  Fixpoint insert_by (x : str * A) (l : list (str * A)) : list (str * A) :=
    match l with
    | [] => [x]
    | y :: r => if str_ltb (fst y) (fst x) then y :: insert_by x r else x :: l
    end.
  Fixpoint sort_by (l : list (str * A)) : list (str * A) :=
    match l with
    | [] => []
    | x :: r => insert_by x (sort_by r)
    end.
End Sort.

(* what walk() returned for one directory entry: the names sent meanwhile, whether it returned SkipDir,
   and whether godirwalk then stops the scan of the parent (SkipDir from an entry that is neither a
   directory nor a symlink to one: "stop processing remaining siblings") *)
Record visit := Visit { v_out : list str; v_skip : bool; v_stops : bool }.

(* for ds.Scan() { err = walk(child); if err == nil {continue}; (SkipDir:) if !isDir { break } } *)
Fixpoint scan (l : list (str * visit)) : list str :=
  match l with
  | [] => []
  | (_, v) :: r => v_out v ++ (if v_skip v && v_stops v then [] else scan r)
  end.

Definition stops (n : node) : bool :=
  match n with File FReg => true | _ => false end.

(* godirwalk's walk(osPathname, dirent) *)
Fixpoint walk (cfg : config) (prefix name : str) (n : node) : list str * bool :=
  match n with
  | File _ =>
      let '(emit, skip) := callback cfg prefix name false in
      ((if emit then [name] else []), skip)
  | Dir cs =>
      let '(emit, skip) := callback cfg prefix name true in
      if skip then ((if emit then [name] else []), true)
      else ((if emit then [name] else []) ++
            scan (sort_by (map (fun nc => let r := walk cfg prefix (join name (fst nc)) (snd nc) in
                                          (fst nc, Visit (fst r) (snd r) (stops (snd nc)))) cs)),
            false)
  end.

(* FindAllBuildFiles(config, rootPath, prefix) on the node found at rootPath (a clean relative path).
   None = log.Fatalf: fs.WalkMode calls the callback directly on a non-directory root and returns its
   error, whereas godirwalk.Walk swallows a SkipDir of the root directory. *)
Definition find (cfg : config) (rootPath prefix : str) (root : node) : option (list str) :=
  let rootPath := if str_eqb rootPath [] then s FindBuildFiles.root_default else rootPath in
  let r := walk cfg prefix rootPath root in
  match root with
  | File _ => if snd r then None else Some (fst r)
  | Dir _ => Some (fst r)
  end.

(* findOriginalTask: dirname, _ := filepath.Split(filename);
   NewBuildLabel(TrimLeft(TrimPrefix(TrimRight(dirname, "/"), prefix), "/"), "all") - the package name *)
Definition pkg_of (prefix filename : str) : str :=
  trim_left (s FindBuildFiles.trim_left_cutset)
    (trim_prefix (trim_right (s FindBuildFiles.trim_right_cutset) (split_dir filename)) prefix).

Definition expand (cfg : config) (dir : str) (root : node) : option (list str) :=
  match find cfg dir [] root with
  | None => None
  | Some out => Some (map (pkg_of []) out)
  end.

(* query.isExcluded(config, dir) *)
Definition is_excluded (cfg : config) (dir : str) : bool :=
  str_eqb dir (s FindBuildFiles.completions_out_dir) || existsb (str_eqb (base dir)) (blacklist cfg).

(* ---------------------------------------------------------------- several labels on one command line *)

(* One command-line label (empty subrepo, host architecture): `//root/...` together with the tree found at
   root, or any other label //pkg:name (`:all` included), which findOriginalTask adds as it is. *)
Inductive target :=
| TDots (root : str) (t : node)
| TLabel (pkg name : str).

(* findOriginalTask(state, target, addToList, arch): the (package, name) pairs handed to AddOriginalTarget *)
Definition original_task (cfg : config) (tg : target) : option (list (str * str)) :=
  match tg with
  | TDots root t => match expand cfg root t with
                    | Some pkgs => Some (map (fun p => (p, s FindBuildFiles.all_targets_name)) pkgs)
                    | None => None
                    end
  | TLabel pkg name => Some [(pkg, name)]
  end.

(* findOriginalTaskSet is translated by gotrans (statements before the loop, range expression, loop body).
   The model interprets exactly one program: no prelude, ranging over ReadStdinLabels(targets) (= targets
   when no label is `-`), the body being the single call of findOriginalTask.  Anything else is not run. *)
Definition strings_eqb (a b : list string) : bool := list_eqb String.eqb a b.
Definition task_set_ok : bool :=
  strings_eqb FindBuildFiles.task_set_prelude []
  && String.eqb FindBuildFiles.task_set_range "ReadStdinLabels(targets)"
  && strings_eqb FindBuildFiles.task_set_body ["findOriginalTask(state, target, addToList, arch)"%string].

(* for _, target := range targets { findOriginalTask(...) } *)
Fixpoint task_loop (cfg : config) (tgs : list target) : option (list (str * str)) :=
  match tgs with
  | [] => Some []
  | tg :: r => match original_task cfg tg, task_loop cfg r with
               | Some a, Some b => Some (a ++ b)
               | _, _ => None
               end
  end.

Definition original_task_set (cfg : config) (tgs : list target) : option (list (str * str)) :=
  if task_set_ok then task_loop cfg tgs else None.

(* ---------------------------------------------------------------- completion: query.containsPackage *)

(* what containsPackage does when the directory taken off the queue is excluded - translated by gotrans *)
Inductive reaction := RContinue | RReturn (b : bool).
Definition on_excluded : reaction :=
  if String.eqb FindBuildFiles.contains_on_excluded "continue" then RContinue
  else if String.eqb FindBuildFiles.contains_on_excluded "return false" then RReturn false
  else RReturn true.

(* for _, info := range infos { if info.IsDir() { queue = append(queue, Join(dir, name)) }
                                if IsABuildFile(name) { return true } }
   None = returned true; Some q = fell off the end with the queue q.  A symlink to a directory is not IsDir(). *)
Fixpoint cp_entries (cfg : config) (dir : str) (es : list (str * node)) (q : list (str * node))
  : option (list (str * node)) :=
  match es with
  | [] => Some q
  | (n, c) :: r =>
      let q' := match c with Dir _ => q ++ [(join dir n, c)] | File _ => q end in
      if is_build_file cfg n then None else cp_entries cfg dir r q'
  end.

(* the breadth-first search; the queue holds (path, node found there); os.ReadDir sorts by name.
   None = out of fuel, or os.ReadDir of a non-directory (log.Fatalf; only directories are ever queued). *)
Fixpoint cp_bfs (re : reaction) (cfg : config) (fuel : nat) (q : list (str * node)) : option bool :=
  match fuel with
  | O => None
  | S fuel' =>
      match q with
      | [] => Some false
      | (dir, n) :: q' =>
          if is_excluded cfg dir
          then match re with RContinue => cp_bfs re cfg fuel' q' | RReturn b => Some b end
          else match n with
               | File _ => None
               | Dir cs => match cp_entries cfg dir (sort_by cs) q' with
                           | None => Some true
                           | Some q'' => cp_bfs re cfg fuel' q''
                           end
               end
      end
  end.

Fixpoint node_size (n : node) : nat :=
  match n with
  | File _ => 1
  | Dir cs => S ((fix go (l : list (str * node)) : nat :=
                    match l with [] => O | nc :: r => node_size (snd nc) + go r end) cs)
  end.

(* containsPackage(config, dir) on the node found at dir; the fuel is shown to suffice (Proof/C22.v) *)
Definition contains_package (cfg : config) (dir : str) (n : node) : option bool :=
  cp_bfs on_excluded cfg (S (node_size n)) [(dir, n)].

(* ---------------------------------------------------------------- correspondence cases *)

Fixpoint sort_strs (l : list str) : list str :=
  match l with
  | [] => []
  | x :: r => (fix ins (l : list str) : list str :=
                 match l with
                 | [] => [x]
                 | y :: r' => if str_ltb y x then y :: ins r' else x :: l
                 end) (sort_strs r)
  end.

(* strings.Join(cs, "/"): the case files write a path as the list of its components *)
Fixpoint P (cs : list str) : str :=
  match cs with
  | [] => []
  | [c] => c
  | c :: r => c ++ slash :: P r
  end.

Inductive case :=
(* FindAllBuildFiles(cfg, root, prefix) on the tree t found at root: the names received from the channel,
   in order; and (prefix = "" only) the package names of the labels findOriginalTask(//root/...) added, sorted *)
| CFind (bfn bl exp : list str) (root prefix : str) (t : node) (files : list str) (labels : option (list str))
(* findOriginalTaskSet(state, targets, true, host arch) for a whole command line: the (package, name) pairs of
   the parse tasks queued (one per AddOriginalTarget call, duplicates kept), sorted by package then name *)
| CSet (bfn bl exp : list str) (tgs : list target) (labels : list (str * str))
(* containsPackage(cfg, dir) on the tree t found at dir *)
| CContains (bfn bl exp : list str) (dir : str) (t : node) (found : bool).

Definition strs_eqb := list_eqb str_eqb.

Definition pair_ltb (a b : str * str) : bool :=
  str_ltb (fst a) (fst b) || (str_eqb (fst a) (fst b) && str_ltb (snd a) (snd b)).
Fixpoint sort_pairs (l : list (str * str)) : list (str * str) :=
  match l with
  | [] => []
  | x :: r => (fix ins (l : list (str * str)) : list (str * str) :=
                 match l with
                 | [] => [x]
                 | y :: r' => if pair_ltb y x then y :: ins r' else x :: l
                 end) (sort_pairs r)
  end.
Definition pair_eqb (a b : str * str) : bool := str_eqb (fst a) (fst b) && str_eqb (snd a) (snd b).

Definition check (c : case) : bool :=
  match c with
  | CSet bfn bl exp tgs labels =>
      match original_task_set (Config bfn bl exp) tgs with
      | Some out => list_eqb pair_eqb (sort_pairs out) labels
      | None => false
      end
  | CContains bfn bl exp dir t found =>
      match contains_package (Config bfn bl exp) dir t with
      | Some b => Bool.eqb b found
      | None => false
      end
  | CFind bfn bl exp root prefix t files labels =>
      match find (Config bfn bl exp) root prefix t with
      | Some out => strs_eqb out files
      | None => false
      end
      && match labels with
         | None => true
         | Some ls => match expand (Config bfn bl exp) root t with
                      | Some out => strs_eqb (sort_strs out) ls
                      | None => false
                      end
         end
  end.
