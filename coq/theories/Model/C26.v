(* C26 - test outcomes are parsed and summarised faithfully.
   Executable model of
     src/core/test_results.go   TestCase.Success/Skip/Failures/Errors, TestSuite.Tests/Passes/FlakyPasses/
                                Failures/Errors/Skips, Add/findMatchingTestCase, Collapse, TestCases.AllSucceeded
     src/test/xml_results.go    looksLikeJUnitXMLTestResults, appendResult, toCoreTestSuite and the top-level element
                                dispatch of parseJUnitXMLTestResults (over an already decoded document)
     src/test/go_results.go     the gtr.Result -> TestExecution mapping of parseGoTestResults
     src/test/results.go        parseTestResults / parseTestResultDatum (collapse of all suites of all files)
     src/test/test_step.go      parseTestOutput (synthetic cases), doFlakeRun (the retry loop), and the pass decision
                                Test.Results.TestCases.AllSucceeded()
   The selector predicates, the counter conditions and the dispatch prefixes are NOT written here: they are
   regenerated from the Go source by gotrans (Gen/C26Counters.v).  No proofs in this file. *)
From PlzV Require Import Base.Harness Gen.C26Counters.

(* ---- core.TestExecution: only the three result pointers are observable to the summary ---- *)
Record exec := mkExec { e_fail : bool; e_err : bool; e_skip : bool }.
Definition ePass := mkExec false false false.
Definition eFail := mkExec true false false.
Definition eErr := mkExec false true false.
Definition eSkip := mkExec false false true.
Definition on_exec (p : bool -> bool -> bool -> bool) (e : exec) : bool := p (e_fail e) (e_err e) (e_skip e).

(* ---- core.TestCase / core.TestSuite (TestCases only) ---- *)
Record tcase := mkCase { c_class : str; c_name : str; c_execs : list exec }.
Definition suite := list tcase.

(* Success() != nil, Skip() != nil: first execution satisfying the predicate exists *)
Definition has_success (c : tcase) : bool := existsb (on_exec exec_Success) (c_execs c).
Definition has_skip (c : tcase) : bool := existsb (on_exec exec_Skip) (c_execs c).
(* Failures(), Errors(): the executions satisfying the predicate, in order *)
Definition failures_of (c : tcase) : list exec := filter (on_exec exec_Failures) (c_execs c).
Definition errors_of (c : tcase) : list exec := filter (on_exec exec_Errors) (c_execs c).

(* a counter condition of Gen/C26Counters.v evaluated on a case *)
Definition view (k : bool -> bool -> nat -> nat -> nat -> bool) (c : tcase) : bool :=
  k (has_success c) (has_skip c) (length (failures_of c)) (length (errors_of c)) (length (c_execs c)).

(* n := 0; for _, result := range TestCases { if cond { n++ } }; return n *)
Definition count (p : tcase -> bool) (s : suite) : nat := length (filter p s).

Definition tests (s : suite) : nat := length s.
Definition passes (s : suite) : nat := count (view cond_Passes) s.
Definition flaky_passes (s : suite) : nat := count (view cond_FlakyPasses) s.
Definition failures (s : suite) : nat := count (view cond_Failures) s.
Definition errors (s : suite) : nat := count (view cond_Errors) s.
Definition skips (s : suite) : nat := count (view cond_Skips) s.

(* for _, testCase := range testCases { if cond { return false } }; return true *)
Definition all_succeeded (s : suite) : bool := negb (existsb (view cond_NotSucceeded) s).

(* ---- Add / findMatchingTestCase / Collapse ---- *)
(* findMatchingTestCase: the match condition (Gen.match_case, regenerated from the Go source) applied to the
   comparison of the two Names and of the two ClassNames - the key of a case is the PAIR, never a joined form *)
Definition same_key (o c : tcase) : bool := match_case (str_eqb (c_name o) (c_name c)) (str_eqb (c_class o) (c_class c)).

(* idx := first matching index; if idx >= 0 append the executions there, else append the case *)
Fixpoint add_one (s : suite) (c : tcase) : suite :=
  match s with
  | [] => [c]
  | o :: r => if same_key o c then mkCase (c_class o) (c_name o) (c_execs o ++ c_execs c) :: r
              else o :: add_one r c
  end.
Definition add_all (s : suite) (cs : list tcase) : suite := fold_left add_one cs s.

Definition collapse (s incoming : suite) : suite := s ++ incoming.

(* ---- JUnit XML, after decoding (encoding/xml is not modelled) ---- *)
(* jUnitXMLTest: which of <failure>/<error>/<skipped> are present and how many flaky / rerun children *)
Record xtest := mkX { x_class : str; x_name : str; x_fail : bool; x_err : bool; x_skip : bool;
                      x_flakyF : nat; x_flakyE : nat; x_rerunF : nat; x_rerunE : nat }.

(* appendResult: "there can be only one of these", then the four kinds of extra executions in this order *)
Definition main_exec (x : xtest) : exec :=
  if x_fail x then eFail else if x_err x then eErr else if x_skip x then eSkip else ePass.
Definition append_result (x : xtest) : list exec :=
  main_exec x :: repeat eFail (x_flakyF x) ++ repeat eErr (x_flakyE x)
              ++ repeat eFail (x_rerunF x) ++ repeat eErr (x_rerunE x).
Definition to_case (x : xtest) : tcase := mkCase (x_class x) (x_name x) (append_result x).

(* a <testsuite> element: its <testcase> children and its <testsuite> children.  jUnitXMLTestSuite has no
   field for the latter, so DecodeElement skips them. *)
Inductive xsuite := XS (cases : list xtest) (nested : list xsuite).
Definition suite_cases (x : xsuite) : suite := match x with XS cs _ => map to_case cs end.

(* top-level elements of a results document *)
Inductive xtop :=
| XSuites (l : list xsuite)       (* <testsuites> *)
| XSuite (x : xsuite)             (* <testsuite> *)
| XCase (c : xtest).              (* a bare <testcase>: core.TestCase{} is filled by appendResult only *)
Definition top_cases (t : xtop) : suite :=
  match t with
  | XSuites l => flat_map suite_cases l
  | XSuite x => suite_cases x
  | XCase c => [mkCase [] [] (append_result c)]
  end.
(* parseTestResultDatum collapses every suite of the document into one *)
Definition parse_xml (d : list xtop) : suite := flat_map top_cases d.

(* ---- `go test -v`, after go-junit-report (not modelled): the tests of the first package ---- *)
Inductive gores := GUnknown | GPass | GFail | GSkip.
Definition go_exec (r : gores) : exec := match r with GFail => eFail | GSkip => eSkip | _ => ePass end.
Definition parse_go (t : list (str * gores)) : suite := map (fun x => mkCase [] (fst x) [go_exec (snd x)]) t.

(* ---- format dispatch ---- *)
Fixpoint has_prefix (p b : str) : bool :=
  match p, b with
  | [], _ => true
  | x :: p', y :: b' => N.eqb x y && has_prefix p' b'
  | _ :: _, [] => false
  end.
Definition looks_like_junit (b : str) : bool := existsb (fun p => has_prefix p b) junit_prefixes.

(* one results file, by the format its bytes select; DBad = non-empty bytes on which the selected parser returns
   an error; DEmpty = a file of length zero *)
Inductive datum := DXml (d : list xtop) | DGo (t : list (str * gores)) | DBad | DEmpty.
Definition datum_empty (d : datum) : bool := match d with DEmpty => true | _ => false end.
Definition datum_junit (d : datum) : bool := match d with DXml _ => true | _ => false end.
(* parseTestResultDatum: the if-chain is Gen.datum_route (regenerated from the Go source) *)
Definition parse_datum (d : datum) : option suite :=
  datum_route (datum_empty d) (datum_junit d)
    None
    (match d with DXml x => Some (parse_xml x) | _ => None end)
    (match d with DGo t => Some (parse_go t) | _ => None end).
(* parseTestResults: the loop body is Gen.results_step (regenerated, statement by statement, from the Go source):
   suite.Collapse(newSuite) per datum, first error wins *)
Fixpoint parse_results (ds : list datum) (acc : suite) : option suite :=
  match ds with
  | [] => Some acc
  | d :: r => match results_step datum_empty parse_datum collapse acc d with
              | None => None
              | Some a => parse_results r a
              end
  end.

(* ---- parseTestOutput ---- *)
Definition synthetic (name : str) (e : exec) : list tcase := [mkCase [] name [e]].
Definition parse_output (name : str) (no_output run_err : bool) (ds : list datum) : suite :=
  match ds with
  | [] => if run_err then synthetic name eErr
          else if no_output then synthetic name ePass else synthetic name eErr
  | _ => match parse_results ds [] with
         | None => synthetic name eErr
         | Some r =>
             if run_err && Nat.eqb (failures r) 0 then add_all r (synthetic name eErr)
             else if negb run_err && negb (Nat.eqb (failures r) 0) then add_all r (synthetic name eErr)
             else r
         end
  end.

(* ---- doFlakeRun: for flakes := 1; flakes <= Flakiness; flakes++ { results.Add(run...); if run.AllSucceeded() { break } } *)
Fixpoint flake_loop (n : nat) (runs : list suite) (acc : suite) : suite :=
  match n, runs with
  | S n', r :: rs => let acc' := add_all acc r in if all_succeeded r then acc' else flake_loop n' rs acc'
  | _, _ => acc
  end.
Definition flake_run (n : nat) (runs : list suite) : suite := flake_loop n runs [].
(* target.AddTestResults(results) collapses into the fresh suite of StartTestSuite; the target is reported as
   passing iff target.Test.Results.TestCases.AllSucceeded() *)
Definition target_results (n : nat) (runs : list suite) : suite := collapse [] (flake_run n runs).
Definition target_passes (n : nat) (runs : list suite) : bool := all_succeeded (target_results n runs).

(* one execution of the test command: exit status and the result files it left *)
Record attempt := mkAttempt { a_run_err : bool; a_data : list datum }.
Definition run_suite (name : str) (no_output : bool) (a : attempt) : suite :=
  parse_output name no_output (a_run_err a) (a_data a).

(* ---- the cached path of test(): a second `plz test` of an unchanged target ---- *)
(* the attempts doFlakeRun executes (same loop as flake_loop, on the attempts themselves) *)
Fixpoint executed_atts (name : str) (no_output : bool) (n : nat) (atts : list attempt) : list attempt :=
  match n, atts with
  | S n', a :: r => a :: (if all_succeeded (run_suite name no_output a) then [] else executed_atts name no_output n' r)
  | _, _ => []
  end.

(* dummyOutput: "=== RUN DummyTest\n--- PASS: DummyTest (0.00s)\nPASS\n" *)
Definition dummy_data : list datum := [DGo [(s "DummyTest", GPass)]].

(* moveOutputFile(outputFile, target.TestResultsFile(), dummyOutput): the test directory is rebuilt for every attempt,
   so what is moved is what the LAST executed attempt left, or the dummy when it left nothing *)
Definition stored_of (a : attempt) : list datum := match a_data a with [] => dummy_data | ds => ds end.

Definition first_report (name : str) (no_output : bool) (n : nat) (atts : list attempt) : suite :=
  target_results n (map (run_suite name no_output) atts).

(* if Results.TestCases.AllSucceeded() { cacheOutputFiles } with its `results.Failures() > 0` guard *)
Definition stored (name : str) (no_output : bool) (n : nat) (atts : list attempt) : option (list datum) :=
  let r := first_report name no_output n atts in
  if all_succeeded r && Nat.eqb (failures r) 0
  then Some (stored_of (last (executed_atts name no_output n atts) (mkAttempt false [])))
  else None.

(* a results file or a results directory as readTestResultsDir sees it: fs.Walk visits a plain file whatever its
   name is (the stored file is the dotfile .test_results_<name>) and the entries of a directory in byte order *)
Inductive rtree := RFile (d : datum) | RDir (entries : list (str * datum)).
Fixpoint insert_entry (e : str * datum) (l : list (str * datum)) : list (str * datum) :=
  match l with
  | [] => [e]
  | x :: r => if str_ltb (fst x) (fst e) then x :: insert_entry e r else e :: l
  end.
Definition sort_entries (l : list (str * datum)) : list (str * datum) := fold_right insert_entry [] l.
Definition read_tree (t : rtree) : list datum :=
  match t with RFile d => [d] | RDir l => map snd (sort_entries l) end.
(* parseTestResultsFile *)
Definition parse_results_file (t : rtree) : option suite := parse_results (read_tree t) [].

(* cachedTestResults: parseTestResultsFile(target.TestResultsFile()); a parse error or a case that did not
   succeed sends test() back to running the test *)
Definition cached_results (ds : list datum) : option suite :=
  match parse_results ds [] with
  | Some r => if all_succeeded r then Some r else None
  | None => None
  end.

(* the second invocation: the report and whether it came from the stored results ([cached]); a re-run
   executes the same attempts again (the test is deterministic in its attempt number) *)
Definition second_report (name : str) (no_output : bool) (n : nat) (atts : list attempt) : suite * bool :=
  match stored name no_output n atts with
  | Some ds => match cached_results ds with
               | Some r => (r, true)
               | None => (first_report name no_output n atts, false)
               end
  | None => (first_report name no_output n atts, false)
  end.

(* ---- a history of invocations of `plz test` on one unchanged target, with and without test arguments ---- *)
(* one invocation: were arguments given (`plz test //:t -- args`), and the attempts the test command executes under
   these arguments (a test runner given arguments runs the selected cases only) *)
Record inv := mkInv { i_args : bool; i_atts : list attempt }.
(* what survives between invocations: the stored results file plz-out/bin/<pkg>/.test_results_<name> (stamped with
   the runtime hash, which does not depend on the arguments) and the entry of the directory cache under that hash *)
Record tstate := mkT { t_out : option (list datum); t_cache : option (list datum) }.
Definition t_init := mkT None None.

(* run the test: RemoveTestOutputs, doFlakeRun, and - when every case succeeded - cacheOutputFiles with its guards
   Gen.cache_refused (regenerated from the Go source), which moves the results file and stores it in the cache *)
Definition run_inv (name : str) (no_output : bool) (n : nat) (st : tstate) (i : inv) : (suite * bool) * tstate :=
  let r := first_report name no_output n (i_atts i) in
  let st' :=
    if all_succeeded r && negb (cache_refused (i_args i) (failures r))
    then let ds := stored_of (last (executed_atts name no_output n (i_atts i)) (mkAttempt false [])) in
         mkT (Some ds) (Some ds)
    else mkT None (t_cache st) in
  ((r, false), st').

(* test(): needToRun (leading guards Gen.need_run_forced; then the stored file, then the cache), cachedTestResults
   (a parse error or a case that did not succeed cleans the cache entry and runs the test), else run *)
Definition invoke (name : str) (no_output : bool) (n : nat) (st : tstate) (i : inv) : (suite * bool) * tstate :=
  if need_run_forced false (i_args i) then run_inv name no_output n st i
  else
    let found := match t_out st with Some ds => Some ds | None => t_cache st end in
    match found with
    | Some ds => match cached_results ds with
                 | Some r => ((r, true), mkT (Some ds) (t_cache st))
                 | None => run_inv name no_output n (mkT (Some ds) None) i
                 end
    | None => run_inv name no_output n st i
    end.

Fixpoint run_history (name : str) (no_output : bool) (n : nat) (st : tstate) (h : list inv) : list (suite * bool) :=
  match h with
  | [] => []
  | i :: r => let x := invoke name no_output n st i in fst x :: run_history name no_output n (snd x) r
  end.

(* ---- correspondence cases ---- *)
Fixpoint all2 {A B} (p : A -> B -> bool) (a : list A) (b : list B) : bool :=
  match a, b with
  | [], [] => true
  | x :: a', y :: b' => p x y && all2 p a' b'
  | _, _ => false
  end.
Definition exec_eqb (a b : exec) : bool :=
  Bool.eqb (e_fail a) (e_fail b) && Bool.eqb (e_err a) (e_err b) && Bool.eqb (e_skip a) (e_skip b).
Definition case_eqb (a b : tcase) : bool :=
  str_eqb (c_class a) (c_class b) && str_eqb (c_name a) (c_name b) && list_eqb exec_eqb (c_execs a) (c_execs b).
Definition suite_eqb : suite -> suite -> bool := list_eqb case_eqb.

(* [tests; passes; flaky passes; failures; errors; skips] *)
Definition counters (s : suite) : list N :=
  map N.of_nat [tests s; passes s; flaky_passes s; failures s; errors s; skips s].

Inductive case :=
| CDispatch (b : str) (isxml : bool)
| CParse (d : datum) (obs : option suite)
| CCount (s : suite) (cnt : list N) (allok : bool)
| CAdd (a cs obs : suite)
| CFlake (name : str) (no_output : bool) (n : nat) (atts : list attempt) (obs : suite) (cnt : list N) (passed : bool)
| CE2E (name : str) (n : nat) (atts : list attempt) (cnt : list N) (passed : bool)
| CStored (t : rtree) (obs : option suite)
| CTwice (name : str) (no_output : bool) (n : nat) (atts : list attempt)
         (cnt1 : list N) (passed1 : bool) (cnt2 : list N) (passed2 : bool) (cached2 : bool)
| CHist (name : str) (no_output : bool) (n : nat) (h : list inv) (obs : list (list N * bool * bool)).

Definition check (c : case) : bool :=
  match c with
  | CDispatch b x => Bool.eqb (looks_like_junit b) x
  | CParse d obs => option_eqb suite_eqb (parse_datum d) obs
  | CCount s cnt ok => list_eqb N.eqb (counters s) cnt && Bool.eqb (all_succeeded s) ok
  | CAdd a cs obs => suite_eqb (add_all a cs) obs
  | CFlake name no n atts obs cnt ok =>
      let r := target_results n (map (run_suite name no) atts) in
      suite_eqb r obs && list_eqb N.eqb (counters r) cnt && Bool.eqb (all_succeeded r) ok
  | CE2E name n atts cnt ok =>
      let r := target_results n (map (run_suite name false) atts) in
      list_eqb N.eqb (counters r) cnt && Bool.eqb (all_succeeded r) ok
  | CStored t obs => option_eqb suite_eqb (parse_results_file t) obs
  | CTwice name no n atts cnt1 ok1 cnt2 ok2 cached2 =>
      let r1 := first_report name no n atts in
      let r2 := second_report name no n atts in
      list_eqb N.eqb (counters r1) cnt1 && Bool.eqb (all_succeeded r1) ok1
      && list_eqb N.eqb (counters (fst r2)) cnt2 && Bool.eqb (all_succeeded (fst r2)) ok2 && Bool.eqb (snd r2) cached2
  | CHist name no n h obs =>
      all2 (fun (m : suite * bool) (o : list N * bool * bool) =>
                  list_eqb N.eqb (counters (fst m)) (fst (fst o)) && Bool.eqb (all_succeeded (fst m)) (snd (fst o))
                  && Bool.eqb (snd m) (snd o))
               (run_history name no n t_init h) obs
  end.
