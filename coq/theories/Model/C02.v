(* C02 (follow-up) - the path hasher's memo on the cache-restore path of buildTarget.
   Model/Engine.v reads every input freshly from plz-out (Engine.read): the hash of a path is a function of what is
   on disk NOW.  The real fs.PathHasher (src/fs/hash.go:82) is memoised per process: Hash(path, recalc = false)
   answers from hasher.memo when the path was hashed before, whatever is on disk now.  This file models exactly
   that - the disk behind one set of paths and the memo - and the event sequence of the restore path
   (build_step.go:286-303, 460-483):
     oldOutputHash := outputHash(target.FullOutputs())   hashes the outputs that are there (stops at the first error)
     retrieveFromCache                                   RemoveAll + link of every output: the files change, the memo does not
     calculateAndCheckRuleHash -> outputHash             hashes every output again
   with the `recalc` arguments of outputHash REGENERATED from the source (Gen/EngineRecord.v: output_hash_recalc_single for
   a target whose only output is a regular file, output_hash_recalc_each for the loop over several outputs).  Dependents then
   read the outputs through sourceHash: Hash(path, recalc = false).
   No proofs here. *)
From PlzV Require Gen.EngineRecord.
From PlzV Require Import Base.Harness Model.Engine.

(* a value is the path-hash stream of the tree at a path (Engine.stream); None = nothing there *)
Record hasher := mkH {
  h_fs : str -> option str;       (* what is on disk *)
  h_memo : str -> option str      (* PathHasher.memo *)
}.

(* PathHasher.Hash(path, recalc, ..): answer from the memo unless recalc; else hash what is there and memoise it; an
   absent path is an error and memoises nothing (hash.go:99) *)
Definition hash (recalc : bool) (p : str) (h : hasher) : option str * hasher :=
  match (if recalc then None else h_memo h p) with
  | Some v => (Some v, h)
  | None => match h_fs h p with
            | Some v => (Some v, mkH (h_fs h) (upd (h_memo h) p (Some v)))
            | None => (None, h)
            end
  end.

Inductive ev :=
| EWrite (p : str) (v : option str)   (* the tree at p is replaced or removed behind the hasher's back: dirCache.retrieveFiles, RemoveOutputs *)
| EHash (recalc : bool) (p : str)     (* PathHasher.Hash, result dropped *)
| EMove (p : str) (v : str).          (* moveOutput of a new output + MoveHash(tmp, p): disk and memo change together *)

Definition ev_step (h : hasher) (e : ev) : hasher :=
  match e with
  | EWrite p v => mkH (upd (h_fs h) p v) (h_memo h)
  | EHash rc p => snd (hash rc p h)
  | EMove p v => mkH (upd (h_fs h) p (Some v)) (upd (h_memo h) p (Some v))
  end.
Definition run_evs (evs : list ev) (h : hasher) : hasher := fold_left ev_step evs h.

(* the paths whose memo entry may be out of date: written since, and not re-hashed with recalc while present *)
Definition remove_str (p : str) (l : list str) : list str := filter (fun q => negb (str_eqb q p)) l.
Definition stale_step (hs : hasher * list str) (e : ev) : hasher * list str :=
  let (h, s) := hs in
  (ev_step h e,
   match e with
   | EWrite p _ => p :: s
   | EHash true p => match h_fs h p with Some _ => remove_str p s | None => s end
   | EHash false _ => s
   | EMove p _ => remove_str p s
   end).
Definition stale_after (evs : list ev) (h : hasher) (s : list str) : list str := snd (fold_left stale_step evs (h, s)).

(* the restore path for a target whose outputs `news` (path, stream of the cached tree) come out of the cache.
   k: how many outputs the first loop got to hash before it hit an absent one; flag_old / flag_new: the recalc argument of the
   two outputHash calls *)
Definition restore_trace_with (flag_old flag_new : bool) (k : nat) (news : list (str * str)) : list ev :=
  map (fun pv => EHash flag_old (fst pv)) (firstn k news)
  ++ map (fun pv => EWrite (fst pv) (Some (snd pv))) news
  ++ map (fun pv => EHash flag_new (fst pv)) news.

(* oldOutputHash always takes the loop (combine = NewHash); targetHasher.outputHash takes the single-output branch when the
   only output is a regular file *)
Definition restore_trace (single_file : bool) (k : nat) (news : list (str * str)) : list ev :=
  restore_trace_with EngineRecord.output_hash_recalc_each
                     (if single_file then EngineRecord.output_hash_recalc_single else EngineRecord.output_hash_recalc_each)
                     k news.

(* what a dependent's sourceHash sees of p afterwards *)
Definition seen (h : hasher) (p : str) : option str := fst (hash false p h).

(* ------------------------------------------------------------------------------------------ *)
(* correspondence: the engine histories (Engine.case) and traces run against the real fs.PathHasher *)

Definition empty_hasher : hasher := mkH (fun _ => None) (fun _ => None).

(* what every EHash of the trace answers, in order (None = error) *)
Fixpoint answers (evs : list ev) (h : hasher) : list (option str) :=
  match evs with
  | [] => []
  | e :: rest =>
      match e with
      | EHash rc p => fst (hash rc p h) :: answers rest (ev_step h e)
      | _ => answers rest (ev_step h e)
      end
  end.

Inductive case :=
| CEng (c : Engine.case)
| CMemo (evs : list ev) (obs : list (option str)).    (* obs: what fs.PathHasher.Hash answered, mapped back to the content hashed *)

Definition check (c : case) : bool :=
  match c with
  | CEng c => Engine.check c
  | CMemo evs obs => list_eqb (option_eqb str_eqb) (answers evs empty_hasher) obs
  end.
