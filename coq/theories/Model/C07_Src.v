(* C07 - the source hash.  Executable model of build.sourceHash (src/build/incrementality.go) and of what it iterates:
   core.IterSources / core.IterInputs (src/core/utils.go) and the accessors AllSources, AllTools, allBuildInputs,
   BuildDependencies, ExportedDependencies, IsTool of core.BuildTarget (src/core/build_target.go).  No proofs here.

   The loop shape of sourceHash (which of hash / path is written per source and per tool path, in which order, and the
   includeTools argument of IterSources) and the two facts about the accessors that the order-independence proof rests
   on (BuildDependencies sorts its copy, allBuildInputs sorts the keys) are NOT written down here: `gotrans
   C07SourceHash` regenerates them from the source as a value of type `sprog` (Gen/C07SourceHash.v) and every function
   below takes that program as an argument.

   What is modelled as it is written: AllSources / AllTools (unnamed, then the named groups by key order); the three
   top-level steps of IterInputs (sources through recursivelyProvideSource, tools when includeTools, then
   inner(target)); inner with its shared `done` map, its two branches (BuildDependencies - a sorted copy - with the
   IsTool filter, or ExportedDependencies - STORED order, not sorted), the yield of the dependency's label followed
   by its run-time dependencies; IterSources' expansion of every input into (fullPath, tmpPath) pairs with the
   `done[tmpPath]` de-duplication; the two loops of sourceHash.
   What is idealised (given as data of the graph, for the top-level target of the case):
     - recursivelyProvideFor(graph, top, dependency, dep): `g_provide`, a finite map (dependency, dep) |-> labels,
       [dep] when absent.  ProvideFor reads Requires (a slice), Provides[require] (map LOOKUP), AllData and IsTool
       (membership only): none of the enumeration orders this property is about.
     - IterAllRuntimeDependencies of a node: `n_runtime`, the labels it yields in order.  The real function walks
       t.runtimeDependencies and (RuntimeDependenciesFromSources / ...FromDependencies) t.dependencies in STORED
       order; that order dependence is therefore outside this model (it is reproduced on the real code by the
       harness: finding class source-hash-runtime-deps-from-srcs-in-dict-order).
     - Paths / FullPaths of an input: `g_paths`, a finite map input |-> list of (fullPath, tmpPath).
     - graph.TargetOrDie of a label that is not in the graph (log.Fatalf in the code): the empty node.
     - errors of the path hasher (sourceHash returns early): the hasher is a total function PH.
   The recursion of `inner` is on explicit fuel (recursion DEPTH; `done` grows along every path, so the number of
   nodes suffices); out of fuel is None. *)
From Coq Require Import Permutation.
From PlzV Require Import Base.Harness Model.C08.

(* ---------------------------------------------------------------------------------------------- inputs *)

(* core.BuildInput: a plain BuildLabel (nonOutputLabel = itself), an AnnotatedOutputLabel (Label() = its label,
   nonOutputLabel = none) or anything without a label (file, subrepo file, system file, system path, URL), identified
   by a string that determines its paths. *)
Inductive input :=
| IFile (id : str)
| ILabel (l : label)
| IOut (l : label) (ann : str).

Definition input_eqb (a b : input) : bool :=
  match a, b with
  | IFile x, IFile y => str_eqb x y
  | ILabel x, ILabel y => label_eqb x y
  | IOut x p, IOut y q => label_eqb x y && str_eqb p q
  | _, _ => false
  end.

(* BuildInput.Label() *)
Definition input_label (i : input) : option label :=
  match i with IFile _ => None | ILabel l => Some l | IOut l _ => Some l end.

(* BuildInput.nonOutputLabel() *)
Definition non_output_label (i : input) : option label :=
  match i with ILabel l => Some l | _ => None end.

Definition igroups := list (str * list input).      (* map[string][]BuildInput, in some enumeration order *)

(* ---------------------------------------------------------------------------------------------- graph *)

(* one depInfo of target.dependencies: the declared label, the labels of dep.deps (filled by resolveOneDependency),
   d_build = !runtime && !data && !internal && !source (the test of BuildDependencies), d_exported *)
Record dep := Dep { d_declared : label; d_resolved : list label; d_build : bool; d_exported : bool }.

Record node := Node {
  n_srcs : list input;             (* target.Sources *)
  n_named_srcs : igroups;          (* target.NamedSources *)
  n_tools : list input;            (* target.Tools *)
  n_named_tools : igroups;         (* target.namedTools *)
  n_test_tools : list label;       (* labels of target.Test.tools / namedTools (IsTool only) *)
  n_deps : list dep;               (* target.dependencies, STORED order *)
  n_needs_transitive : bool;
  n_output_is_complete : bool;
  n_runtime : list label           (* what IterAllRuntimeDependencies yields (idealised, see above) *)
}.

Definition empty_node : node := Node [] [] [] [] [] [] false false [].

Record graph := Graph {
  g_nodes : list (label * node);                     (* the build graph: label |-> target (never iterated) *)
  g_provide : list ((label * label) * list label);   (* recursivelyProvideFor(graph, top, dependency, dep) *)
  g_paths : list (input * list (str * str))          (* input |-> zip FullPaths (tmpDir/Paths) *)
}.

Definition find_node (g : graph) (l : label) : node :=
  match find (fun kv => label_eqb l (fst kv)) (g_nodes g) with Some kv => snd kv | None => empty_node end.

Definition rpf (g : graph) (dependency d : label) : list label :=
  match find (fun e => label_eqb dependency (fst (fst e)) && label_eqb d (snd (fst e))) (g_provide g) with
  | Some e => snd e
  | None => [d]
  end.

Definition paths_of (g : graph) (i : input) : list (str * str) :=
  match find (fun e => input_eqb i (fst e)) (g_paths g) with Some e => snd e | None => [] end.

(* ---------------------------------------------------------------------------------------------- the program *)

Inductive wr := WHash | WPath.    (* h.Write(result of PathHasher.Hash) | h.Write([]byte(path)) *)

Inductive semit :=
| SrcLoop (include_tools : bool) (ws : list wr)   (* for src := range core.IterSources(state, graph, target, include_tools) { ws } *)
| ToolLoop (ws : list wr).                        (* for tool in target.AllTools() { for path in tool.FullPaths(graph) { ws } } *)

Record sprog := SProg {
  sp_body : list semit;            (* the statements of sourceHash between sha1.New() and h.Sum(nil) *)
  sp_build_deps_sorted : bool;     (* BuildDependencies() sorts its copy (sort.Sort(ret)) *)
  sp_inputs_sorted : bool          (* allBuildInputs sorts the keys of the named map (sort.Strings(keys)) *)
}.

(* what the order-independence proof needs of the regenerated program *)
Definition src_sorted_only (p : sprog) : bool := sp_build_deps_sorted p && sp_inputs_sorted p.

(* ---------------------------------------------------------------------------------------------- accessors *)

(* allBuildInputs(unnamed, named) = AllSources() / AllTools() *)
Definition all_inputs (sorted : bool) (unnamed : list input) (named : igroups) : list input :=
  unnamed ++ flat_map snd (order_of sorted named).

Definition all_sources (p : sprog) (n : node) : list input := all_inputs (sp_inputs_sorted p) (n_srcs n) (n_named_srcs n).
Definition all_tools (p : sprog) (n : node) : list input := all_inputs (sp_inputs_sorted p) (n_tools n) (n_named_tools n).

(* BuildDependencies(): the resolved targets of the build-time entries, in slice order, then sort.Sort *)
Definition build_deps (p : sprog) (n : node) : list label :=
  let l := flat_map d_resolved (filter d_build (n_deps n)) in
  if sp_build_deps_sorted p then sort_labels l else l.

(* ExportedDependencies(): the declared labels of the exported entries, in slice order. NOT sorted. *)
Definition exported_deps (n : node) : list label := map d_declared (filter d_exported (n_deps n)).

Definition has_label (l : label) (i : input) : bool :=
  match input_label i with Some l' => label_eqb l l' | None => false end.

(* IsTool(label) *)
Definition is_tool (n : node) (l : label) : bool :=
  existsb (has_label l) (n_tools n) || existsb (fun kv => existsb (has_label l) (snd kv)) (n_named_tools n)
  || existsb (label_eqb l) (n_test_tools n).

(* ---------------------------------------------------------------------------------------------- IterInputs *)

Definition mem (l : label) (d : list label) : bool := existsb (label_eqb l) d.

(* yield(label); for runDep := range graph.TargetOrDie(label).IterAllRuntimeDependencies(graph) { yield(runDep) } *)
Definition visit_label (g : graph) (l : label) : list input := ILabel l :: map ILabel (n_runtime (find_node g l)).

(* recursivelyProvideSource(target, src) *)
Definition provide_source (g : graph) (top : label) (i : input) : list input :=
  match non_output_label i with
  | Some l => flat_map (visit_label g) (rpf g top l)
  | None => [i]
  end.

Definition wstate := (list label * list input)%type.   (* the `done` map; everything yielded so far *)

Definition step (rec : label -> wstate -> option wstate) (skip : label -> bool) (acc : option wstate) (d2 : label)
  : option wstate :=
  match acc with
  | None => None
  | Some st => if mem d2 (fst st) || skip d2 then Some st else rec d2 st
  end.

(* inner(dependency) of IterInputs; top = the target whose sources are iterated *)
Fixpoint inner (p : sprog) (g : graph) (top : label) (fuel : nat) (d : label) (st : wstate) : option wstate :=
  match fuel with
  | O => None
  | S f =>
      let n := find_node g d in
      let is_top := label_eqb d top in
      let st1 := (d :: fst st, if is_top then snd st else snd st ++ visit_label g d) in
      if is_top || (n_needs_transitive (find_node g top) && negb (n_output_is_complete n))
      then fold_left (step (inner p g top f) (is_tool n)) (flat_map (rpf g d) (build_deps p n)) (Some st1)
      else fold_left (step (inner p g top f) (fun _ => false)) (flat_map (rpf g d) (exported_deps n)) (Some st1)
  end.

(* IterInputs(state, graph, target, includeTools, sourcesOnly = false) *)
Definition iter_inputs (p : sprog) (g : graph) (top : label) (fuel : nat) (include_tools : bool) : option (list input) :=
  let n := find_node g top in
  let srcs := flat_map (provide_source g top) (all_sources p n) in
  let tools := if include_tools then flat_map (provide_source g top) (all_tools p n) else [] in
  option_map snd (inner p g top fuel top ([], srcs ++ tools)).

(* ---------------------------------------------------------------------------------------------- IterSources *)

(* `if tmpPath := ...; !done[tmpPath] { yield(fullPaths[i], tmpPath); done[tmpPath] = true }` *)
Fixpoint dedup_tmp (done : list str) (l : list (str * str)) : list (str * str) :=
  match l with
  | [] => []
  | pr :: r => if existsb (str_eqb (snd pr)) done then dedup_tmp done r else pr :: dedup_tmp (snd pr :: done) r
  end.

Definition iter_sources (p : sprog) (g : graph) (top : label) (fuel : nat) (include_tools : bool)
  : option (list (str * str)) :=
  option_map (fun ins => dedup_tmp [] (flat_map (paths_of g) ins)) (iter_inputs p g top fuel include_tools).

(* ---------------------------------------------------------------------------------------------- sourceHash *)

Section Stream.
  Variable PH : str -> str.    (* state.PathHasher.Hash(path, false, true, false): external *)

  Definition write_path (ws : list wr) (path : str) : str :=
    flat_map (fun w => match w with WHash => PH path | WPath => path end) ws.

  Definition semit_bytes (p : sprog) (g : graph) (top : label) (fuel : nat) (e : semit) : option str :=
    match e with
    | SrcLoop it ws =>
        option_map (flat_map (fun pr => write_path ws (fst pr))) (iter_sources p g top fuel it)
    | ToolLoop ws =>
        Some (flat_map (fun tool => flat_map (fun pr => write_path ws (fst pr)) (paths_of g tool))
                       (all_tools p (find_node g top)))
    end.

  Definition cat_opt (a b : option str) : option str :=
    match a, b with Some x, Some y => Some (x ++ y) | _, _ => None end.

  (* the byte stream sourceHash(state, target) writes into the hash; None = out of fuel *)
  Definition src_stream (p : sprog) (fuel : nat) (g : graph) (top : label) : option str :=
    fold_right (fun e acc => cat_opt (semit_bytes p g top fuel e) acc) (Some []) (sp_body p).
End Stream.

(* ---------------------------------------------------------------------------------------------- cases *)

(* binary strings of a case (hashes, streams) are written as lower-case hexadecimal literals: Coq reads a string literal
   much faster than a list of numbers *)
Definition hexval (c : N) : N := if N.leb c 57 then N.sub c 48 else N.sub c 87.
Fixpoint unhex (x : str) : str :=
  match x with
  | a :: b :: r => N.add (N.mul 16 (hexval a)) (hexval b) :: unhex r
  | _ => []
  end.

(* the path hasher of a case: the table of the hashes the real PathHasher returned *)
Definition table_ph (tbl : smap) (path : str) : str :=
  match lookup path tbl with Some h => h | None => [] end.

(* Two stored states of one graph (the same recipes performed in two insertion orders), read back from the real
   targets, with the streams the Go interpreter of the same generated program wrote for them; the harness has
   checked sha1(stream) = build.sourceHash(state, target) for both. *)
Inductive src_case :=
| CSrc (g g' : graph) (top : label) (fuel : nat) (hashes : smap) (stream stream' : str).

Definition src_check_with (p : sprog) (c : src_case) : bool :=
  match c with
  | CSrc g g' top fuel hashes st st' =>
      option_eqb str_eqb (src_stream (table_ph hashes) p fuel g top) (Some st)
      && option_eqb str_eqb (src_stream (table_ph hashes) p fuel g' top) (Some st')
  end.

(* ---------------------------------------------------------------------------------------------- presentations *)

(* Two stored states of one target: the Go maps (named sources, named tools) listed in some order, the dependency
   slice in some order; everything else equal.  n_runtime is ordered data (see the header). *)
Definition node_same (n n' : node) : Prop :=
  n_srcs n = n_srcs n' /\ Permutation (n_named_srcs n) (n_named_srcs n')
  /\ n_tools n = n_tools n' /\ Permutation (n_named_tools n) (n_named_tools n')
  /\ n_test_tools n = n_test_tools n' /\ Permutation (n_deps n) (n_deps n')
  /\ n_needs_transitive n = n_needs_transitive n' /\ n_output_is_complete n = n_output_is_complete n'
  /\ n_runtime n = n_runtime n'.

(* two presentations of one build graph: the same labels, every node presented in another order *)
Definition graph_same (g g' : graph) : Prop :=
  Forall2 (fun kv kv' => fst kv = fst kv' /\ node_same (snd kv) (snd kv')) (g_nodes g) (g_nodes g')
  /\ g_provide g = g_provide g' /\ g_paths g = g_paths g'.

(* the keys of a Go map are distinct *)
Definition node_wfb (n : node) : bool := nodup_keys (n_named_srcs n) && nodup_keys (n_named_tools n).
Definition graph_wf (g : graph) : Prop := forallb (fun kv => node_wfb (snd kv)) (g_nodes g) = true.

(* the exported entries of every dependency slice are listed in the same relative order in both presentations *)
Definition exported_same (g g' : graph) : Prop :=
  Forall2 (fun kv kv' => exported_deps (snd kv) = exported_deps (snd kv')) (g_nodes g) (g_nodes g').

(* executable classifier of the known defect: some node has two or more exported dependencies (only then can their
   relative order differ between two presentations) *)
Definition exported_order_matters (g : graph) : bool :=
  existsb (fun kv => Nat.ltb 1 (length (exported_deps (snd kv)))) (g_nodes g).
